"""C07 -- equal terms hash equally (per-constructor obligations, structural induction)."""
import eqhash

LEVEL = "proof"


def run(ctx):
    st, cap = eqhash.rule_H_STORAGE(ctx)
    classes = eqhash.rule_H_EQSHAPE(ctx, st, cap)
    eqhash.rule_H_ORDER(ctx)
    eqhash.rule_H_HASH(ctx, st, classes)
    # a description is turned into a value by the constructors: each new_X builds exactly variant X from its arguments (no normalisation such
    # as double-negation elimination, seed c06-f), else "built from the same description" and "different constructors are unequal" fail
    import maps as _m2
    _m2.rule_M_CTOR(ctx)
    # naming-law lints over the modules this property lives in (sibling slips: truth<->budget, stamp<->punctuation, left<->right, swapped arguments)
    import roles as _roles
    _roles.rule_R_ROLE(ctx, modules=('enum_narsese::',))
    _roles.rule_A_NAMES(ctx, modules=('enum_narsese::',))
    import lskel as _lskel
    _lskel.rule_L_SKELETON(ctx, which=('term',), floor=10)
    ctx.undecided = []
    ctx.assumptions = ["std Hash for String/usize/str/Box<T> is a function of the value", "DefaultHasher::new() uses fixed keys (deterministic)",
                       "equal components hash equally (induction hypothesis; base case = std types)"]
    ctx.trusted = ["rustc nightly front end / MIR", "mirfacts driver", "python rule layer incl. the idiom recognisers",
                   "std: Hash impls of String, usize, str, Box; DefaultHasher::new determinism; commutativity/associativity of wrapping_add, ^, wrapping_mul"]
    return ("Proof by structural induction, one obligation per constructor: assuming equal components hash equally, the Hash arm of each "
            "variant is a function of the PartialEq-class of the value. Ordered variants: the arm feeds only fields Eq compares, in stored "
            "order. Set-like and either-order variants: the arm hands the unordered components to a function proven (on MIR) to be an "
            "order-independent combiner; no sink write happens inside a hash-set iteration anywhere reachable from Term::hash. The Eq classes "
            "themselves are verified per variant (H-EQSHAPE, H-STORAGE).")
