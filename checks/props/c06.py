"""C06 -- term equality is semantic, order-insensitive where NAL says so, and stable."""
import eqhash

LEVEL = "other"


def run(ctx):
    st, cap = eqhash.rule_H_STORAGE(ctx)
    classes = eqhash.rule_H_EQSHAPE(ctx, st, cap)
    eqhash.rule_derived_eq(ctx)
    # stability premise: HashSet equality looks elements up by hash, so it needs C07's invariance
    eqhash.rule_H_ORDER(ctx)
    eqhash.rule_H_HASH(ctx, st, classes)
    # a description is turned into a value by the constructors: each new_X builds exactly variant X from its arguments (no normalisation such
    # as double-negation elimination, seed c06-f), else "built from the same description" and "different constructors are unequal" fail
    import maps as _m2
    _m2.rule_M_CTOR(ctx)
    # parser state: any field beyond the reviewed ones is unmodelled state (seed c06-e: an atom cache keyed by the bare name; c09-f: a stale
    # copula index surviving reset_to)
    import c08 as _c08
    _c08.rule_S_FIELDS(ctx)
    # naming-law lints over the modules this property lives in (sibling slips: truth<->budget, stamp<->punctuation, left<->right, swapped arguments)
    import roles as _roles
    _roles.rule_R_ROLE(ctx, modules=('enum_narsese::',))
    _roles.rule_A_NAMES(ctx, modules=('enum_narsese::',))
    import lskel as _lskel
    _lskel.rule_L_SKELETON(ctx, which=('term',), floor=10)
    # "the same description built another way compares equal": the fold is the other way of building a term (seed c06-p: the fold's copula
    # table maps `<|>` to the predictive constructor, so folded <A <|> B> is ordered)
    _lskel.rule_L_SKELETON(ctx, which=('fold',), floor=8)
    ctx.undecided = ["nothing value-dependent beyond the induction over nesting depth; std HashSet::eq is trusted to implement set equality "
                     "given a Hash consistent with Eq (which the H-* premises establish)"]
    ctx.assumptions = ["std HashSet<T>::eq = same length and every element of one contained in the other", "String/usize equality is the identity relation"]
    ctx.trusted = ["rustc nightly front end / MIR", "mirfacts driver", "python rule layer"]
    return ("Static check, 30 obligations per clause: (1) each variant's storage kind agrees with its capacity class; (2) each PartialEq arm "
            "pairs the variant only with itself, mentions every field and has the shape its class requires (position-wise conjunction / set "
            "equality / either-order disjunction), each of which is an equivalence relation given one on the components, so reflexivity, symmetry "
            "and transitivity follow by structural induction; (3) stability: set equality looks elements up by hash, therefore the Hash "
            "invariance premises of C07 (H-ORDER, H-SET, H-SYM, H-COMB) are checked here too.")
