"""C05 -- the lexical parser and lexical folding are total."""
import panics, progress, tables, mir, hir

LEVEL = "other"


def run(ctx):
    f = ctx.facts
    reach = panics.rule_P_TABLE(ctx, ["lexical_parser", "fold"], 40)
    # fold reaches the enum parser's side doors (stamp, punctuation): their structural rules apply too
    panics.rule_P_CURSOR(ctx)
    panics.rule_P_COUPLE(ctx)
    panics.rule_P_CALLER(ctx)
    panics.rule_P_VALID(ctx, reach, 12)
    import maps
    maps.rule_U_CHARS(ctx)
    panics.rule_R_BORDER(ctx, 10)
    T = tables.Tables(ctx)
    tables.rule_T_DISJOINT(ctx, T)
    tables.rule_T_NONEMPTY(ctx, T)
    # lexical brackets non-empty: the recursion/loop progress of the segmenters relies on it
    ctx.rule("T-NONEMPTY-LEX", "lexical tables: compound/statement/set brackets, separators, connecters, copulas, punctuations and the "
             "non-empty-prefix atoms are non-empty strings (each recursive segment call starts after a matched, non-empty keyword)")
    for name in T.names:
        l = T.l_roles(name)
        for key, kw in sorted(l["single"].items()):
            parts = kw if isinstance(kw, tuple) else (kw,)
            ctx.ob("T-NONEMPTY-LEX", "%s %s" % (name, key), all(len(x) > 0 for x in parts), "empty keyword")
        for fam in ("connecter", "copula", "punctuation"):
            ctx.ob("T-NONEMPTY-LEX", "%s %s dictionary" % (name, fam), all(len(x) > 0 for x in l[fam]), "empty keyword in %s" % l[fam])
        ctx.ob("T-NONEMPTY-LEX", "%s set brackets" % name, all(len(a) > 0 and len(b) > 0 for a, b in l["set_brackets"]), "")
    # fold discipline: no unwrap/expect/index in the fold module itself
    ctx.rule("P-FOLD", "the fold module contains no panic edge of its own: every failure is converted with `?`/ok_or into FoldError; image "
             "construction goes through to_image_*_with_placeholder (index = first-placeholder counter, I-INDEX), truth/budget through try_from_floats")
    own = []
    for p in sorted(reach):
        b = f.mir[p]
        if "lexical_fold::impl_enum" in p:
            ctx.fn(b)
            for kind, detail, bi, t in panics.panic_sites(b):
                if kind == "assert" and "Overflow(Add)" in detail:
                    continue
                own.append("%s: %s %s" % (b["name"], kind, detail))
    ctx.ob("P-FOLD", "no panic edge inside lexical_fold::impl_enum", not own, "%s" % own)
    fc = f.mir_fn("fold_compound", module="lexical_fold::impl_enum")
    g = mir.cfg(fc)
    direct = [mir.callee_name(t) for bi, t in g.calls() if mir.callee_name(t) in ("new_image_extension", "new_image_intension")]
    ctx.ob("P-FOLD", "fold_compound builds images only through to_image_*_with_placeholder", not direct and len(g.calls("to_image_extension_with_placeholder")) == 1
           and len(g.calls("to_image_intension_with_placeholder")) == 1, "direct calls: %s" % direct)
    import c10
    # I-INDEX for the fold path (index = enumerate counter at the first placeholder, everything else pushed)
    tti = f.hir_fn("to_terms_with_image", module="enum_narsese::term")
    ok = c10.tti_shape(tti)
    ctx.ob("I-INDEX", "to_terms_with_image: index = counter at the first placeholder, all other items pushed (so index <= pushed count)", ok, "")
    progress.rule_L_PROGRESS(ctx, set(p for p in reach if "impl_enum::parser" not in p), 8, enum=False)
    progress.rule_L_RECURSION_lexical(ctx, reach)
    # a truncated closing bracket / separator accepted as the keyword moves the returned border beyond the environment (D10)
    import fullmatch
    fullmatch.rule_P_FULLMATCH(ctx)
    # machine proof of the border invariant the reviewed `why` entries of the lexical slice sites rest on
    import blen
    blen.rule_B_LEN(ctx)
    blen.rule_L_ONCE(ctx)
    # the enum parser's productions: which keyword is tested / skipped / handed to which sub-parser, which slot is filled (P-SKELETON), in terms of
    # cursor primitives with exactly their reviewed meaning (P-PRIM)
    import pskel as _pskel
    _pskel.rule_P_PRIM(ctx)
    _pskel.rule_P_SKELETON(ctx)
    # naming-law lints over the modules this property lives in (sibling slips: truth<->budget, stamp<->punctuation, left<->right, swapped arguments)
    import roles as _roles
    _roles.rule_R_ROLE(ctx, modules=('conversion::string::impl_lexical::parser', 'conversion::inter_type', 'enum_narsese::', 'lexical::'))
    _roles.rule_A_NAMES(ctx, modules=('conversion::string::impl_lexical::parser', 'conversion::inter_type', 'enum_narsese::', 'lexical::'))
    import lskel as _lskel
    _lskel.rule_L_SKELETON(ctx, which=('lexical', 'fold'), floor=10)
    ctx.undecided = ["the lower-bound half `a <= b` of the two `env[a..b]` sites (parse_items term region, segment_atom name region), the underflow "
                     "obligations `len - k`, and the closure slice of segment_atom rest on reviewed reasons (T-DISJOINT, P-GUARD); the upper bounds "
                     "of all lexical slice sites are machine-proved by B-LEN", "stack depth",
                     "time beyond the structural necessary conditions L-PROGRESS and L-ONCE (the lexical error path clones the remaining input per "
                     "failed alternative: quadratic in the nesting depth, bounded for the property's bounds)"]
    ctx.assumptions = ["lengths <= isize::MAX", "iterators driving `for` loops are finite", "external callees not on the may-panic list are total",
                       "nar_dev_utils prefix/suffix matching returns an entry that really is a prefix/suffix of the slice"]
    ctx.trusted = ["rustc MIR", "mirfacts driver", "the reviewed table checks/tables/panic_sites.json", "python rule layer"]
    return ("Totality by exhaustive inventory over the 170+ functions reachable from the lexical parser entries and all TryFoldInto impls: "
            "every panic edge must match a reviewed table entry (operand expressions + required dominating guards re-extracted each run); the "
            "fold module itself must contain none; table-level disjointness keeps the prefix/suffix borders ordered; every loop has a progress "
            "witness and every recursive segment call receives a strictly shorter slice.")
