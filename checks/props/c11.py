"""C11 -- ASCII output conforms to the published CommonNarsese grammar (lexicon and layout clauses)."""
import os, re, unicodedata
import hir, tables, emit, maps
from facts import AnchorMissing, REPO

LEVEL = "other"
TPL = "conversion::string::common::common_narsese_templates::"

# frozen reference lexicon transcribed from the OpenNARS wiki grammar the README cites (ASCII input/output format)
REF = {
    "atom.prefix_word": "", "atom.prefix_variable_independent": "$", "atom.prefix_variable_dependent": "#", "atom.prefix_variable_query": "?",
    "atom.prefix_interval": "+", "atom.prefix_operator": "^", "atom.prefix_placeholder": "_",
    "compound.brackets": ("(", ")"), "compound.separator": ",", "compound.brackets_set_extension": ("{", "}"), "compound.brackets_set_intension": ("[", "]"),
    "compound.connecter_intersection_extension": "&", "compound.connecter_intersection_intension": "|", "compound.connecter_difference_extension": "-",
    "compound.connecter_difference_intension": "~", "compound.connecter_product": "*", "compound.connecter_image_extension": "/",
    "compound.connecter_image_intension": "\\", "compound.connecter_conjunction": "&&", "compound.connecter_disjunction": "||",
    "compound.connecter_negation": "--", "compound.connecter_conjunction_sequential": "&/", "compound.connecter_conjunction_parallel": "&|",
    "statement.brackets": ("<", ">"), "statement.copula_inheritance": "-->", "statement.copula_similarity": "<->", "statement.copula_implication": "==>",
    "statement.copula_equivalence": "<=>", "statement.copula_instance": "{--", "statement.copula_property": "--]", "statement.copula_instance_property": "{-]",
    "statement.copula_implication_predictive": "=/>", "statement.copula_implication_concurrent": "=|>", "statement.copula_implication_retrospective": "=\\>",
    "statement.copula_equivalence_predictive": "</>", "statement.copula_equivalence_concurrent": "<|>", "statement.copula_equivalence_retrospective": "<\\>",
    "sentence.punctuation_judgement": ".", "sentence.punctuation_goal": "!", "sentence.punctuation_question": "?", "sentence.punctuation_quest": "@",
    "sentence.stamp_brackets": (":", ":"), "sentence.stamp_past": "\\", "sentence.stamp_present": "|", "sentence.stamp_future": "/",
    "sentence.truth_brackets": ("%", "%"), "sentence.truth_separator": ";", "task.budget_brackets": ("$", "$"), "task.budget_separator": ";",
}


def punct_sym(c):
    return unicodedata.category(c)[0] in ("P", "S")


def read_peg():
    path = os.path.join(os.environ.get("VERIF_REPO", REPO), "README.md")
    try:
        s = open(path, encoding="utf-8").read()
    except OSError:
        raise AnchorMissing("README.md")
    m = re.search(r"```pest\n(.*?)```", s, re.S)
    if not m:
        raise AnchorMissing("```pest block in README.md")
    text = "\n".join(l for l in m.group(1).split("\n") if not l.strip().startswith("///"))
    rules = {}
    i = 0
    hdr = re.compile(r"(\w+)\s*=\s*[_@$!]?\{")
    while True:
        m2 = hdr.search(text, i)
        if not m2:
            break
        j = m2.end()
        depth, instr = 1, False
        while j < len(text) and depth:
            c = text[j]
            if instr:
                if c == "\\":
                    j += 1
                elif c == '"':
                    instr = False
            elif c == '"':
                instr = True
            elif c == "/" and text[j:j + 2] == "//":
                while j < len(text) and text[j] != "\n":
                    j += 1
                continue
            elif c == "{":
                depth += 1
            elif c == "}":
                depth -= 1
            j += 1
        rules[m2.group(1)] = re.sub(r"//[^\n]*", "", text[m2.end():j - 1])
        i = j
    return rules


def lits(body):
    return re.findall(r'"((?:[^"\\]|\\.)*)"', body)


def run(ctx):
    f = ctx.facts
    T = tables.Tables(ctx)
    if "FORMAT_ASCII" not in T.names:
        raise AnchorMissing("FORMAT_ASCII tables")
    E = T.enum["FORMAT_ASCII"]
    L = T.l_roles("FORMAT_ASCII")
    ER = T.e_roles("FORMAT_ASCII")
    peg = read_peg()
    ctx.floor("PEG rules parsed from README.md", len(peg), 15)
    ctx.extra["peg_rules"] = sorted(peg)
    # ---- T-PEG
    ctx.rule("T-PEG", "the ```pest block of README.md is parsed on every run; every ASCII keyword of both tables is in the class the grammar gives "
             "its role: brackets/separators equal the grammar's literals, copulas match one of the four copula alternatives, connecters match "
             "punct_sym (!\",\" punct_sym)*, non-word prefixes punct_sym+, punctuations one PUNCTUATION|SYMBOL char, stamps \":\" (!\":\" ANY)+ \":\"")
    need = ["budget", "budget_content", "statement", "compound", "copula", "connecter", "atom", "atom_prefix", "punctuation", "stamp", "truth", "task", "sentence"]
    for r in need:
        if r not in peg:
            raise AnchorMissing("PEG rule %s" % r)
    bl = lits(peg["budget"])
    ctx.ob("T-PEG", "budget brackets", tuple(E["task"]["budget_brackets"]) == (bl[0], bl[-1]) == tuple(L["single"]["task.budget_brackets"]), "grammar %s" % bl)
    ctx.ob("T-PEG", "budget separator", E["task"]["budget_separator"] in lits(peg["budget_content"]) and L["single"]["task.budget_separator"] == E["task"]["budget_separator"], "")
    tl = lits(peg["truth"])
    ctx.ob("T-PEG", "truth brackets", tuple(E["sentence"]["truth_brackets"]) == (tl[0], tl[-1]) == tuple(L["single"]["sentence.truth_brackets"]), "grammar %s" % tl)
    ctx.ob("T-PEG", "truth separator", E["sentence"]["truth_separator"] in tl[1:-1], "")
    sl = lits(peg["statement"])
    ctx.ob("T-PEG", "statement brackets", tuple(E["statement"]["brackets"]) == (sl[0], sl[-1]) == tuple(L["single"]["statement.brackets"]), "grammar %s" % sl)
    alts = [a for a in peg["compound"].split("|")]
    cl = [lits(a) for a in alts]
    ok = len(cl) == 3 and tuple(E["compound"]["brackets"]) == (cl[0][0], cl[0][-1]) and E["compound"]["separator"] in cl[0][1:-1]
    ctx.ob("T-PEG", "compound brackets and separator", ok and tuple(L["single"]["compound.brackets"]) == tuple(E["compound"]["brackets"]), "grammar %s" % cl[:1])
    gram_sets = {(c[0], c[-1]) for c in cl[1:]}
    ctx.ob("T-PEG", "set brackets", {tuple(E["compound"]["brackets_set_extension"]), tuple(E["compound"]["brackets_set_intension"])} == gram_sets
           == {tuple(x) for x in L["set_brackets"]}, "grammar %s" % sorted(gram_sets))
    # copulas: four alternatives
    calts = []
    for a in peg["copula"].split("|"):
        toks = re.findall(r'punct_sym|"[^"]*"', a)
        if toks:
            calts.append([t.strip('"') if t != "punct_sym" else None for t in toks])
    ctx.floor("copula alternatives in the grammar", len(calts), 4)

    def cop_ok(kw):
        for alt in calts:
            if len(kw) == len(alt) and all((a is None and punct_sym(c)) or a == c for a, c in zip(alt, kw)):
                return True
        return False
    for fld, kw in sorted(ER["copula"].items()):
        ctx.ob("T-PEG", "copula %s %r" % (fld, kw), cop_ok(kw) and kw in L["copula"], "matches none of the grammar's copula alternatives %s" % calts)
    for fld, kw in sorted(ER["connecter"].items()):
        ok = len(kw) >= 1 and all(punct_sym(c) for c in kw) and "," not in kw[1:]
        ctx.ob("T-PEG", "connecter %s %r" % (fld, kw), ok and kw in L["connecter"], "not punct_sym (!\",\" punct_sym)*")
    for fld, kw in sorted(ER["prefix"].items()):
        if fld == "prefix_word":
            ctx.ob("T-PEG", "word prefix empty", kw == "", "%r" % kw)
        elif fld == "prefix_placeholder":
            ctx.ob("T-PEG", "placeholder %r" % kw, kw == "_" * len(kw) and len(kw) >= 1 and lits(peg["atom"])[0] == "_", "")
        else:
            ctx.ob("T-PEG", "prefix %s %r" % (fld, kw), len(kw) >= 1 and all(punct_sym(c) for c in kw) and kw in L["prefix"], "not punct_sym+")
    for fld, kw in sorted(ER["punctuation"].items()):
        ctx.ob("T-PEG", "punctuation %s %r" % (fld, kw), len(kw) == 1 and punct_sym(kw) and kw in L["punctuation"], "not a single PUNCTUATION|SYMBOL char")
    stl = lits(peg["stamp"])
    b0, b1 = E["sentence"]["stamp_brackets"]
    ctx.ob("T-PEG", "stamp brackets", (b0, b1) == (stl[0], stl[-1]), "grammar %s" % stl)
    for fld, kw in sorted(ER["stamp_kind"].items()):
        ctx.ob("T-PEG", "stamp %s %r" % (fld, kw), len(kw) >= 1 and b1 not in kw, "stamp content must be non-empty and free of %r" % b1)
    for pair in L["stamp_pairs"]:
        whole = pair[0] + "0" + pair[1] if pair[0] else pair[1]
        ctx.ob("T-PEG", "lexical stamp form %r" % (tuple(pair),), whole.startswith(stl[0]) and whole.endswith(stl[-1]) and stl[0] not in whole[1:-1] and len(whole) >= 3, "")
    # number and identifier classes
    tb = peg.get("truth_budget_term", "")
    ctx.ob("T-PEG", "numeric item = (ASCII_DIGIT|\".\")+", "ASCII_DIGIT" in tb and '"."' in tb, tb)
    for fn in (L["fn"]["is_truth_content"], L["fn"]["is_budget_content"]):
        p = tables.char_pred(f, fn)
        ok = all(tables.pred_accepts(p, c) for c in "0123456789.") and not any(tables.pred_accepts(p, c) for c in "eE+-")
        ctx.ob("T-PEG", "%s accepts only digits, '.' and the separator" % fn.rsplit("::", 1)[-1], ok, "%s" % sorted(p))
    ac = peg.get("atom_char", "")
    pid = tables.char_pred(f, L["fn"]["is_identifier"])
    ctx.ob("T-PEG", "identifier chars cover LETTER|NUMBER|\"_\"|\"-\"", all(x in ac for x in ("LETTER", "NUMBER", '"_"', '"-"')) and
           all(tables.pred_accepts(pid, c) for c in "aZ9_-é漢"), "%s" % sorted(pid))
    # ---- T-PEG-LOOKAHEAD: where does a name end?
    ctx.rule("T-PEG-LOOKAHEAD", "sibling agreement on where an atom name ends: the grammar's atom_content = atom_char ~ (!copula ~ atom_char)* stops "
             "before anything its GENERIC copula patterns match, the library's name scanners stop before one of the 13 CONCRETE copulas; "
             "every string of atom characters that a grammar copula alternative matches must also be a library copula, else the formatter "
             "prints a name the grammar cuts in two")
    acont = re.sub(r"\s+", "", peg.get("atom_content", ""))
    ctx.ob("T-PEG-LOOKAHEAD", "atom_content = atom_char ~ (!copula ~ atom_char)*", acont == "atom_char~(!copula~atom_char)*", acont)
    achar_lits = [x for x in lits(ac) if len(x) == 1]
    classes = re.findall(r"\b[A-Z_]{3,}\b", ac)
    ctx.ob("T-PEG-LOOKAHEAD", "atom_char = LETTER | NUMBER | literal chars", sorted(classes) == ["LETTER", "NUMBER"] and len(achar_lits) >= 1, "%s %s" % (classes, achar_lits))
    # chars that are atom_char AND punct_sym: LETTER / NUMBER (general categories L*, N*) are disjoint from PUNCTUATION / SYMBOL (P*, S*)
    both = sorted(c for c in achar_lits if punct_sym(c))

    def is_atom_char(c):
        return c in achar_lits or unicodedata.category(c)[0] in ("L", "N")
    import itertools
    inner = []
    for alt in calts:
        if not all(a is None or is_atom_char(a) for a in alt):
            continue
        slots = [both if a is None else [a] for a in alt]
        for combo in itertools.product(*slots):
            inner.append("".join(combo))
    lib = set(L["copula"]) | set(ER["copula"].values())
    ctx.sample({"rule": "T-PEG-LOOKAHEAD", "atom_chars_that_are_punct_sym": both, "grammar_copula_matches_inside_names": sorted(set(inner))})
    for g in sorted(set(inner)):
        ctx.ob("T-PEG-LOOKAHEAD", "name-internal %r: copula for the grammar's look-ahead, and for the library" % g, g in lib,
               "the ASCII formatters print a name such as a%sb verbatim and the library reads it back whole, but the grammar's atom_content stops "
               "before %r and rejects the rest" % (g, g))
    if not inner:
        ctx.ob("T-PEG-LOOKAHEAD", "no grammar copula alternative matches inside a name", True)
    # ---- T-REF
    ctx.rule("T-REF", "both ASCII tables equal the frozen OpenNARS-compatible reference lexicon (this is what notices formatter and parser "
             "drifting together)")
    for key, want in sorted(REF.items()):
        got = tables_lookup(E, key)
        got = tuple(got) if isinstance(got, (list, tuple)) else got
        ctx.ob("T-REF", "enum ASCII %s" % key, got == want, "table has %r, reference %r" % (got, want))
    ctx.ob("T-REF", "enum ASCII fixed-stamp marker", E["sentence"]["stamp_fixed"] == "!", "%r" % E["sentence"]["stamp_fixed"])
    ref_cop = {v for k, v in REF.items() if ".copula_" in k}
    ref_con = {v for k, v in REF.items() if ".connecter_" in k}
    ref_pre = {v for k, v in REF.items() if ".prefix_" in k}
    ref_pun = {v for k, v in REF.items() if ".punctuation_" in k}
    ctx.ob("T-REF", "lexical ASCII copulas", set(L["copula"]) == ref_cop, "%s" % sorted(set(L["copula"]) ^ ref_cop))
    ctx.ob("T-REF", "lexical ASCII connecters", set(L["connecter"]) == ref_con, "%s" % sorted(set(L["connecter"]) ^ ref_con))
    ctx.ob("T-REF", "lexical ASCII prefixes", set(L["prefix"]) == ref_pre, "%s" % sorted(set(L["prefix"]) ^ ref_pre))
    ctx.ob("T-REF", "lexical ASCII punctuations", set(L["punctuation"]) == ref_pun, "%s" % sorted(set(L["punctuation"]) ^ ref_pun))
    ref_st = {("", ":\\:"), ("", ":|:"), ("", ":/:"), (":!", ":")}
    ctx.ob("T-REF", "lexical ASCII stamp forms", {tuple(x) for x in L["stamp_pairs"]} == ref_st, "%s" % L["stamp_pairs"])
    # ---- F-SKELETON
    ctx.rule("F-SKELETON", "symbolic evaluation of the six template functions and of the enum/lexical formatter wiring to emission skeletons, "
             "compared with the grammar's productions modulo ignorable whitespace: compound = ( connecter , term (, term)* ); set = { term (, term)* }; "
             "statement = < term copula term >; sentence = term punctuation stamp? truth?; task = budget sentence; budget/truth = b (num (; num)*)? b")
    Em = emit.Emit(f)

    def J(items, seps):
        return ("join", items, seps, "item")
    want_tpl = {
        "template_atom": (3, ["$1", "$2"]),
        "template_components": (4, [J("enumerate($1)", ["$2", "$3"])]),
        "template_compound": (7, ["$1", "$2", "$4", "$5", J("enumerate($3)", ["$4", "$5"]), "$6"]),
        "template_compound_set": (6, ["$1", J("enumerate($2)", ["$3", "$4"]), "$5"]),
        "template_statement": (7, ["$1", "$2", "$5", "$3", "$5", "$4", "$6"]),
        "template_sentence": (6, ["$1", ("joinlest", ["$2", "$3", "$4"], "$5")]),
    }
    for nm, (n, want) in sorted(want_tpl.items()):
        it = f.hir.get(TPL + nm)
        if it is None:
            raise AnchorMissing("template %s" % nm)
        ctx.fn(it)
        try:
            got = Em.fn(TPL + nm, ["@sink"] + ["$%d" % i for i in range(1, n)])
        except hir.Unrecognised as u:
            ctx.unrecognised("F-SKELETON", nm, u.what)
            continue
        ctx.ob("F-SKELETON", nm, got == want, "emits %s, grammar layout requires %s" % (got, want))
        ctx.sample({"rule": "F-SKELETON", "template": nm, "skeleton": str(got)})
    # formatter wiring: which table field goes to which template slot
    C = "fmt.compound."
    S = "fmt.statement."
    SP = "fmt.space.format_terms"
    wiring = {
        ("impl_enum::formatter", "format_compound", 4): ["@sink", "$1", "$2"],
        ("impl_enum::formatter", "format_image", 5): ["@sink", "$1", "$2", "$3"],
        ("impl_enum::formatter", "format_set", 5): ["@sink", "$1", "$2", "$3"],
        ("impl_enum::formatter", "format_statement", 5): ["@sink", "$1", "$2", "$3"],
        ("impl_enum::formatter", "format_atom", 4): ["@sink", "$1", "$2"],
    }
    exp = {
        "format_compound": [C + "brackets.0", "$2", C + "separator", SP, ("join", None, [C + "separator", SP], "item"), C + "brackets.1"],
        "format_image": [C + "brackets.0", "$3", C + "separator", SP, ("join", None, [C + "separator", SP], "item"), C + "brackets.1"],
        "format_set": ["$2", ("join", None, [C + "separator", SP], "item"), "$3"],
        "format_statement": [S + "brackets.0", "format_term($1)", SP, "$3", SP, "format_term($2)", S + "brackets.1"],
        "format_atom": ["$2", "get_atom_name_unchecked($1)"],
    }
    for (mod, nm, n), args in sorted(wiring.items()):
        it = f.hir_fn(nm, module=mod)
        ctx.fn(it)
        try:
            got = Em.fn(it["path"], ["fmt"] + args)
        except hir.Unrecognised as u:
            ctx.unrecognised("F-SKELETON", "enum " + nm, u.what)
            continue
        ctx.ob("F-SKELETON", "enum " + nm, same(got, exp[nm]), "emits %s, expected %s" % (got, exp[nm]))
    # item level: enum
    for mod, label_ in (("impl_enum::formatter", "enum"), ("impl_lexical::formatter", "lexical")):
        it = f.hir_fn("_format_sentence", module=mod)
        got = Em.fn(it["path"], ["fmt", "@sink", "$s"])
        ok = len(got) == 2 and isinstance(got[1], tuple) and got[1][0] == "joinlest" and len(got[1][1]) == 3 and "term" in got[0].lower() \
            and "punctuation" in got[1][1][0] and "stamp" in got[1][1][1] and "truth" in got[1][1][2]
        ctx.ob("F-SKELETON", "%s sentence = term punctuation stamp truth" % label_, ok, "emits %s" % (got,))
        it = f.hir_fn("_format_task", module=mod)
        got = Em.fn(it["path"], ["fmt", "@sink", "$t"])
        # budget first (directly into the sink), then the sentence via the buffer, then flush
        kinds = [g[0] if isinstance(g, tuple) else "push" for g in got]
        first_budget = "budget" in str(got[0])
        ok = first_budget and kinds[-2:] == ["into", "flush"]
        ctx.ob("F-SKELETON", "%s task = budget sentence" % label_, ok, "emits %s" % (kinds,))
    it = f.hir_fn("format_floats", module="impl_enum::formatter")
    got = Em.fn(it["path"], ["fmt", "@sink", "$1", "$2", "$3", "$4"])
    # every number is written by f64's Display (`to_string`): the grammar's truth_budget_term = (ASCII_DIGIT | ".")+ needs at least one
    # character per entry and nothing but digits and '.', which Display guarantees for finite values in [0,1] (seed c11-d: a trimming
    # helper printed 0.0 as the empty string)
    ok_num = len(got) == 3 and got[0] == "$1" and got[2] == "$2" and isinstance(got[1], tuple) and got[1][0] == "join" and got[1][2] == ["$3"] \
        and got[1][3] == "to_string(item)"
    ctx.ob("F-SKELETON", "enum numbers = b (num (sep num)*)? b, each num written by Display", ok_num, "emits %s" % (got,))
    strs = hir.find_calls(it["body"], "to_string")
    ctx.ob("F-SKELETON", "enum numbers: to_string is f64's Display", len(strs) == 1 and strs[0].get("def") == "std::string::ToString::to_string"
           and "f64" in (strs[0]["recv"].get("ty") or ""), "%s" % [(c.get("def"), c["recv"].get("ty")) for c in strs])
    for nm, b, sep, opt in (("_format_truth", "fmt.sentence.truth_brackets", "fmt.sentence.truth_separator", True),
                            ("_format_budget", "fmt.task.budget_brackets", "fmt.task.budget_separator", False)):
        it = f.hir_fn(nm, module="impl_lexical::formatter")
        got = Em.fn(it["path"], ["fmt", "@sink", "$v"])
        core = [g for g in got if not (isinstance(g, tuple) and g[0] == "unless")]
        guards_ = [g for g in got if isinstance(g, tuple) and g[0] in ("unless", "if", "ifnot")]
        ok = len(core) == 3 and core[0] == b + ".0" and core[2] == b + ".1" and core[1][0] == "join" and core[1][2] == [sep]
        # sentence = term punctuation stamp? truth?  (an empty truth is omitted);  task = budget sentence with budget_content possibly ""
        # (an empty budget keeps its brackets: without them the output is a sentence, not a task -- seed c11-c)
        ok_guard = (guards_ == [("unless", "is_empty($v)")] and got[0] == guards_[0]) if opt else not guards_
        ctx.ob("F-SKELETON", "lexical %s = b (num (sep num)*)? b, %s" % (nm, "omitted when empty" if opt else "brackets always written"), ok and ok_guard, "emits %s" % (got,))
    lt = f.hir_fn("_format_term", module="impl_lexical::formatter")
    got = Em.fn(lt["path"], ["fmt", "@sink", "$t"])
    arms = got[0][2] if got and isinstance(got[0], tuple) and got[0][0] == "match" else {}
    ctx.ob("F-SKELETON", "lexical compound", same(arms.get("Compound"), [C + "brackets.0", "connecter", C + "separator", SP, ("join", None, [C + "separator", SP], "item"), C + "brackets.1"]), "%s" % (arms.get("Compound"),))
    ctx.ob("F-SKELETON", "lexical set", same(arms.get("Set"), ["left_bracket", ("join", None, [C + "separator", SP], "item"), "right_bracket"]), "%s" % (arms.get("Set"),))
    ctx.ob("F-SKELETON", "lexical statement", same(arms.get("Statement"), [S + "brackets.0", "format_term(subject)", SP, "copula", SP, "format_term(predicate)", S + "brackets.1"]), "%s" % (arms.get("Statement"),))
    ctx.ob("F-SKELETON", "lexical atom", arms.get("Atom") == ["prefix", "name"], "%s" % (arms.get("Atom"),))
    # ASCII separator between items is whitespace only
    ctx.ob("F-SKELETON", "ASCII spaces are whitespace only", E["space"]["format_terms"].strip() == "" and E["space"]["format_items"].strip() == ""
           and T.lex["FORMAT_ASCII"]["space"]["format_terms"].strip() == "" and T.lex["FORMAT_ASCII"]["space"]["format_items"].strip() == "", "")
    # component order is preserved end to end (formatter, templates, parsers, fold, accessors)
    import maps as _maps
    _maps.rule_O_ORDER(ctx)
    import tables as _t2
    _t2.rule_T_IDENT_CLASS(ctx, _t2.Tables(ctx), models=("enum", "lex"))
    # naming-law lints over the modules this property lives in (sibling slips: truth<->budget, stamp<->punctuation, left<->right, swapped arguments)
    import roles as _roles
    _roles.rule_R_ROLE(ctx, modules=('conversion::string::impl_enum::formatter', 'conversion::string::impl_lexical', 'conversion::string::common'))
    _roles.rule_A_NAMES(ctx, modules=('conversion::string::impl_enum::formatter', 'conversion::string::impl_lexical', 'conversion::string::common'))
    # every formatter function against its reviewed emission skeleton
    import emit as _emit
    _emit.rule_F_SKELETON_ALL(ctx)
    # the kind of the value read back (task / sentence / term) is decided by slot presence alone, identically in both parsers (seed c11-h)
    import c15 as _c15
    _c15.rule_K_KIND(ctx)
    # what the lexical parser accepts as stamp / truth / budget content is a property of the format tables' predicates (seeds c03-k, c11-k: '0'..'9')
    import tables as _tb
    _tb.rule_T_PRED(ctx, _tb.Tables(ctx))
    ctx.undecided = ["that the reference grammar derives the same tree as the lexical parser for every output (equivalence of two parsers over all strings)",
                     "PEG ordered-choice subtleties (e.g. the statement alternative tried before compound) are not modelled"]
    ctx.assumptions = ["unicodedata general categories P*/S* = pest's PUNCTUATION|SYMBOL", "the frozen reference lexicon was transcribed correctly from the OpenNARS wiki grammar"]
    ctx.trusted = ["rustc HIR", "README.md pest block (parsed each run)", "frozen reference lexicon in this checker", "python rule layer"]
    return ("Lexicon and layout clauses of C11: every ASCII keyword of both tables is checked against the token class the README's PEG (parsed on "
            "every run) assigns to its role and against a frozen OpenNARS reference lexicon; the six templates and the formatter wiring are "
            "evaluated symbolically to emission skeletons and compared with the grammar's productions. Tree equality with the reference grammar "
            "for all outputs is not decided.")


def tables_lookup(table, key):
    cur = table
    for part in key.split("."):
        cur = cur[part]
    return cur


def same(got, want):
    """skeleton equality where a join's item source in `want` may be None (= any iterator over the components)"""
    if got is None or want is None or len(got) != len(want):
        return False
    for g, w in zip(got, want):
        if isinstance(w, tuple) and w[0] == "join":
            if not (isinstance(g, tuple) and g[0] == "join" and g[2] == w[2] and (w[1] is None or g[1] == w[1])):
                return False
        elif g != w:
            return False
    return True
