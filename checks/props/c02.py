"""C02 -- lexical format -> parse round trip (structural clauses)."""
import collections
import inline as _inline, json
import hir, mir, tables, emit, deps
from hir import strip, field_path
from facts import AnchorMissing

LEVEL = "other"
LEXF = "impl_lexical::formatter"
LEXP = "impl_lexical::parser"
FMT_TY = "conversion::string::impl_lexical::format::NarseseFormat"


def fields_read(body):
    """table fields of the lexical NarseseFormat a MIR body touches: set of 'section.field'"""
    out = set()

    def scan_place(pl):
        # a field projection out of one of the section structs (NarseseFormatTask, ...Sentence, ...) IS a read of `section.field`, however the
        # reference to the section was obtained (directly from self.format or through a named temporary `let t = &self.format.task;`)
        for e in pl["proj"]:
            if e["k"] == "Field":
                of = str(e.get("of", ""))
                if of.startswith(FMT_TY) and of != FMT_TY and "<" not in of[len(FMT_TY):]:
                    out.add("%s.%s" % (of[len(FMT_TY):].lower(), e["name"]))
    for bl in body["blocks"]:
        for s in bl["stmts"]:
            if s["k"] != "Assign":
                continue
            rv = s["rv"]
            for o in mir._operands(rv):
                if o["k"] in ("Copy", "Move"):
                    scan_place(o["place"])
            if rv["k"] in ("Ref", "CopyForDeref", "RawPtr", "Discriminant"):
                scan_place(rv["place"])
        t = bl["term"]
        if t["k"] == "Call":
            for a in t["args"]:
                if a["k"] in ("Copy", "Move"):
                    scan_place(a["place"])
    return out


def callee_multiset(f, path, depth=0):
    """names of resolved callees of a body including its closures"""
    b = f.mir[path]
    c = collections.Counter()
    g = mir.cfg(b)
    for bi, t in g.calls():
        nm = mir.callee_name(t)
        if nm in ("deref", "branch", "from_residual", "into_iter", "as_ref", "borrow"):
            continue
        c[nm] += 1
    for p2, b2 in f.mir.items():
        if b2["defkind"] == "Closure" and p2.startswith(path + "::"):
            c.update(callee_multiset(f, p2, depth + 1))
    return c


def maps_table_field(e):
    import maps as _m
    e = strip(e)
    while e["k"] == "AddrOf":
        e = strip(e["e"])
    return _m.table_field(hir.field_path(e))


def run(ctx):
    f = ctx.facts
    deps.require_nar_dev_utils(ctx, ["src/str_processing/x_fix_match/x_fix_dict.rs", "src/str_processing/x_fix_match/suffix_match.rs",
                                     "src/str_processing/x_fix_match/traits.rs", "src/str_processing/join.rs"])
    T = tables.Tables(ctx)
    # ---- 0. siblings
    ctx.rule("X-SIBLING", "segment_budget and segment_truth implement the same step for different items: same multiset of resolved callees "
             "(prefix/suffix bracket segmentation aside), in particular both drop empty pieces -- `$$` is [] and not [\"\"]")
    sb = f.mir_fn("segment_budget", module=LEXP)
    st = f.mir_fn("segment_truth", module=LEXP)
    ctx.fn(sb); ctx.fn(st)
    cb, ct = callee_multiset(f, sb["path"]), callee_multiset(f, st["path"])
    ren = {"segment_brackets_prefix": "segment_brackets_*", "segment_brackets_suffix": "segment_brackets_*"}
    nb = collections.Counter({ren.get(k, k): v for k, v in cb.items()})
    nt = collections.Counter({ren.get(k, k): v for k, v in ct.items()})
    ctx.ob("X-SIBLING", "segment_budget ~ segment_truth", nb == nt, "callees differ: budget-only %s, truth-only %s" % (dict(nb - nt), dict(nt - nb)))
    for b in (sb, st):
        has_filter = any(mir.callee_name(t) == "filter" for bi, t in mir.cfg(b).calls())
        clos = [b2 for p2, b2 in f.mir.items() if b2["defkind"] == "Closure" and p2.startswith(b["path"] + "::")]
        drops = any(any(mir.callee_name(t) == "is_empty" for bi, t in mir.cfg(c).calls()) for c in clos)
        ctx.ob("X-SIBLING", "%s drops empty pieces" % b["name"], has_filter and drops, "expected `.filter(|s| !s.is_empty())`")
    fb, ftr = fields_read(sb), fields_read(st)
    ctx.ob("X-SIBLING", "segment_budget reads only budget fields", fb == {"task.budget_brackets", "task.is_budget_content", "task.budget_separator"}, "%s" % sorted(fb))
    ctx.ob("X-SIBLING", "segment_truth reads only truth fields", ftr == {"sentence.truth_brackets", "sentence.is_truth_content", "sentence.truth_separator"}, "%s" % sorted(ftr))
    # ---- 1. L-FIELDS
    ctx.rule("L-FIELDS", "the table fields the lexical formatter writes equal, role by role, the fields the lexical parser reads when undoing them")
    pairs = [
        ("_format_truth", ["segment_truth"], {"sentence.truth_brackets", "sentence.truth_separator"}),
        ("_format_budget", ["segment_budget"], {"task.budget_brackets", "task.budget_separator"}),
        ("_format_term", ["segment_compound", "segment_statement", "segment_term_set", "segment_atom"],
         {"compound.brackets", "compound.separator", "statement.brackets"}),
    ]
    for fn_, parsers, roles in pairs:
        fm = f.mir_fn(fn_, module=LEXF)
        ctx.fn(fm)
        w = set(x for x in fields_read(fm) if not x.startswith("space."))
        r = set()
        for pn in parsers:
            pb = f.mir_fn(pn, module=LEXP)
            ctx.fn(pb)
            r |= fields_read(pb)
            for hb in _inline.new_callee_bodies(f, pb):       # a new private helper of the segmenter reads on its behalf
                r |= fields_read(hb)
        ctx.ob("L-FIELDS", "%s writes exactly its role's fields" % fn_, w == roles, "writes %s, role %s" % (sorted(w), sorted(roles)))
        ctx.ob("L-FIELDS", "%s: parser reads what the formatter writes" % fn_, roles <= r, "parser side reads %s" % sorted(r))
    # sentence/task item wiring of the formatter
    Em = emit.Emit(f)
    sk = Em.fn(f.hir_fn("_format_sentence", module=LEXF)["path"], ["fmt", "@sink", "$s"])
    ok = len(sk) == 2 and isinstance(sk[1], tuple) and sk[1][0] == "joinlest" and sk[1][1] == ["$s.punctuation", "$s.stamp", "format_truth($s.truth)"] and sk[0] == "format_term(get_term($s))"
    ctx.ob("L-FIELDS", "lexical sentence = term, punctuation, stamp, truth (in that order)", ok, "%s" % (sk,))
    import maps
    maps.rule_U_CHARS(ctx, modules=("impl_lexical::parser",))
    # ---- 2. table laws
    tables.rule_T_PRED(ctx, T)
    tables.rule_T_DISJOINT(ctx, T)
    tables.rule_T_DISTINCT(ctx, T, which=("lex",))
    # the lexical vocabulary must contain every keyword of its enum sibling (seed c02-x: the Han interval prefix written in another script)
    tables.rule_T_AGREE(ctx, T)
    tables.rule_T_JUXTAPOSE(ctx, T, models=("lex",))
    tables.rule_T_SHADOW_lex(ctx, T)
    # ---- 3. optional truth / mandatory budget, parser defaults
    ctx.rule("F-BUDGET-ALWAYS", "lexical _format_budget: every path pushes both brackets (no early return on empty)")
    ctx.rule("F-TRUTH-OPT", "lexical _format_truth returns before any push iff truth.is_empty(); the parser's defaults for an absent truth/stamp "
             "are the empty vector/string, so omitted items come back as what was formatted")
    skb = Em.fn(f.hir_fn("_format_budget", module=LEXF)["path"], ["fmt", "@sink", "$v"])
    ctx.ob("F-BUDGET-ALWAYS", "_format_budget", len(skb) == 3 and not any(isinstance(x, tuple) and x[0] in ("unless", "if") for x in skb)
           and skb[0] == "fmt.task.budget_brackets.0" and skb[2] == "fmt.task.budget_brackets.1", "%s" % (skb,))
    skt = Em.fn(f.hir_fn("_format_truth", module=LEXF)["path"], ["fmt", "@sink", "$v"])
    ctx.ob("F-TRUTH-OPT", "_format_truth", len(skt) == 4 and skt[0] == ("unless", "is_empty($v)") and skt[1] == "fmt.sentence.truth_brackets.0"
           and skt[3] == "fmt.sentence.truth_brackets.1", "%s" % (skt,))
    folds = [it for p, it in f.hir.items() if it["name"] == "fold" and LEXP in p]
    if len(folds) != 1:
        raise AnchorMissing("lexical MidParseResult::fold")
    uo = hir.find_calls(folds[0]["body"], "unwrap_or")
    dfl = [hir.callee(hir.strip(c["args"][0])) for c in uo]
    ok = len(uo) == 4 and all(d and (d.endswith("String::new") or d.endswith("Vec::<T>::new")) for d in dfl)
    ctx.ob("F-TRUTH-OPT", "parser defaults: absent stamp -> \"\", absent truth -> []", ok, "%s" % dfl)
    # join_lest_multiple_separators drops empty items, so an empty stamp/truth leaves no trace (dep summary)
    # ---- arity agreement between the lexical formatter and parser
    ctx.rule("A-ARITY-LEX", "smallest component count the lexical formatter can write vs the lexical parser can read, for compounds and sets: the "
             "template writes `left connecter separator space` unconditionally before the (possibly empty) component list and a set as "
             "`left components right`; in segment_compound every path from a skipped separator to the loop exit passes through segment_term, "
             "and in segment_term_set a segment_term call dominates every Ok return.  The lexical Term variants have public fields, so a "
             "value with zero components exists.  The statement says `any number of components`")
    Em = emit.Emit(f)
    TPL = "conversion::string::common::common_narsese_templates::"
    try:
        sk_c = Em.fn(TPL + "template_compound", ["@sink"] + ["$%d" % i for i in range(1, 7)])
        sk_s = Em.fn(TPL + "template_compound_set", ["@sink"] + ["$%d" % i for i in range(1, 6)])
    except hir.Unrecognised as u:
        sk_c = sk_s = None
        ctx.unrecognised("A-ARITY-LEX", "templates", u.what)
    if sk_c is not None:
        # index of the join over the components, and whether the separator ($4) is written before it outside any guard
        ji = [i for i, x in enumerate(sk_c) if isinstance(x, tuple) and x[0] == "join"]
        sep_before = bool(ji) and "$4" in [x for x in sk_c[:ji[0]] if isinstance(x, str)]
        guarded = any(isinstance(x, tuple) and x[0] in ("unless", "if", "ifnot") for x in sk_c)
        sc = f.mir_fn("segment_compound", module=LEXP)
        ctx.fn(sc)
        g = mir.cfg(sc)
        terms = {bi for bi, t in g.calls("segment_term")}
        sep_skip, exit_blocks = set(), set()
        for bi, t in g.calls("starts_with_full"):
            br = g.bool_branch(bi)
            if br is None:
                continue
            what = g.path_s(t["args"][1]) if len(t["args"]) > 1 else ""
            if "separator" in what:
                sep_skip.add(br[0])
            else:
                exit_blocks.add(br[0])
        if not sep_skip or not exit_blocks or not terms:
            ctx.unrecognised("A-ARITY-LEX", "segment_compound", "separator test / closing-bracket test / segment_term call not found (%s, %s, %s)" % (sep_skip, exit_blocks, terms))
        else:
            need_term = all(not (exit_blocks & g.reachable_from(s_, avoid=tuple(terms))) for s_ in sep_skip)
            ctx.sample({"rule": "A-ARITY-LEX", "template_compound": [str(x) for x in sk_c], "separator_written_before_components": sep_before,
                        "parser_requires_term_after_separator": need_term})
            ctx.ob("A-ARITY-LEX", "lexical compound with zero components: written `left connecter separator right`, the parser requires a term after a separator",
                   not (sep_before and not guarded and need_term),
                   "Term::new_compound(c, vec![]) is printed as e.g. `(&&, )` and parse of that string is an error")
    if sk_s is not None:
        guarded = any(isinstance(x, tuple) and x[0] in ("unless", "if", "ifnot") for x in sk_s)
        ss = f.mir_fn("segment_term_set", module=LEXP)
        ctx.fn(ss)
        g = mir.cfg(ss)
        terms = [bi for bi, t in g.calls("segment_term")]
        oks = [bi for bi in sorted(g.reach) for st_ in ss["blocks"][bi]["stmts"]
               if st_["k"] == "Assign" and st_["rv"]["k"] == "Aggregate" and st_["rv"].get("agg") == "Adt" and st_["rv"]["adt"].endswith("result::Result") and st_["rv"]["variant"] == "Ok"]
        if not terms or not oks:
            ctx.unrecognised("A-ARITY-LEX", "segment_term_set", "segment_term call / Ok return not found")
        else:
            first_required = all(any(g.dominates(tb, ob) for tb in terms) for ob in oks)
            ctx.sample({"rule": "A-ARITY-LEX", "template_compound_set": [str(x) for x in sk_s], "parser_requires_first_element": first_required})
            ctx.ob("A-ARITY-LEX", "lexical set with zero components: written `left right`, the parser requires a first element",
                   not (not guarded and first_required), "Term::new_set(l, vec![], r) is printed as e.g. `{}` and parse of that string is an error")
    # the component loops end exactly when the closing bracket follows: any further condition on the exit makes some arity unreadable
    import guards as G
    for fn_name in ("segment_compound", "segment_term_set"):
        b = f.mir_fn(fn_name, module=LEXP)
        g = mir.cfg(b)
        sym = G.Sym(b)
        exits = []
        for bi, t in g.calls("starts_with_full"):
            br = g.bool_branch(bi)
            what = g.path_s(t["args"][1]) if len(t["args"]) > 1 else ""
            if br is not None and "separator" not in what:
                exits.append(br[0])
        if len(exits) != 1:
            ctx.unrecognised("A-ARITY-LEX", fn_name, "expected one closing-bracket test, found %d" % len(exits))
            continue
        gs = ["%s = %s" % x for x in sym.live_guards(exits[0])]
        extra = [x for x in gs if not (x.startswith("discr(branch(") and x.endswith(" = 0")) and not (x.startswith("starts_with_full(") and x.endswith(" = true"))]
        ctx.ob("A-ARITY-LEX", "%s: the component loop ends exactly when the closing bracket follows" % fn_name, not extra,
               "additional conditions on the loop exit: %s" % extra, "%s:%s" % (b["span"]["file"], b["span"]["line"]))
    # component order is preserved end to end (formatter, templates, parsers, fold, accessors)
    import maps as _maps
    _maps.rule_O_ORDER(ctx)
    import tables as _t2
    _t2.rule_T_IDENT_CLASS(ctx, _t2.Tables(ctx), models=("lex",))
    # naming-law lints over the modules this property lives in (sibling slips: truth<->budget, stamp<->punctuation, left<->right, swapped arguments)
    import roles as _roles
    _roles.rule_R_ROLE(ctx, modules=('conversion::string::impl_lexical', 'conversion::string::common', 'lexical::'))
    _roles.rule_A_NAMES(ctx, modules=('conversion::string::impl_lexical', 'conversion::string::common', 'lexical::'))
    # every formatter function against its reviewed emission skeleton
    import emit as _emit
    _emit.rule_F_SKELETON_ALL(ctx)
    import lskel as _lskel
    _lskel.rule_L_SKELETON(ctx, which=('lexical',), floor=10)
    # ---- A-ATOM-LEX: the name scan of the lexical parser
    ctx.rule("A-ATOM-LEX", "lexical segment_atom: a character continues the name iff it is an identifier character AND no copula starts at it "
             "(closure = is_identifier(c) && copulas.match_prefix_char_slice(&env[i..]).is_none(), copulas = format.statement.copulas); the atom "
             "is rejected iff the name is empty AND the prefix is empty (content_start >= right_border && prefix.is_empty())")
    sa = f.hir_fn("segment_atom", module="impl_lexical::parser")
    ctx.fn(sa)
    cl = [n_ for n_ in hir.walk(sa["body"]) if n_.get("k") == "Closure" and len(n_.get("params", [])) == 2]
    lets_ = hir.let_env(sa["body"])          # binders are identified by what they are bound to, not by their names

    def init_of(e_):
        e_ = strip(e_)
        while e_["k"] == "AddrOf" or (e_["k"] == "Unary" and e_.get("op") in ("*", "Deref")):
            e_ = strip(e_["e"])
        if e_["k"] == "Path" and e_["path"].get("res") == "local":
            return lets_.get(e_["path"].get("hid"))
        return None
    env_name = [q["name"] for q in sa["params"] if q.get("k") == "Binding" and q["name"] != "self"][:1]
    okc = okcop = False
    if len(cl) == 1:
        pi, pc_ = [q.get("name") for q in cl[0]["params"]]
        b_ = strip(cl[0]["body"])
        if b_["k"] == "Block":           # the predicate may live in a (new, inlined) helper: `{ let copulas = ..; <predicate> }`
            b_ = strip(hir.last_expr(b_))
        if b_["k"] == "Binary" and b_["op"] in ("&&", "And"):
            l_, r_ = strip(b_["l"]), strip(b_["r"])
            lid = l_["k"] == "Call" and field_path(strip(l_["f"])) is not None and field_path(strip(l_["f"]))[-1] == "is_identifier" and field_path(l_["args"][0]) == (pc_,)
            rnone = r_["k"] == "MethodCall" and r_["method"] == "is_none" and strip(r_["recv"])["k"] == "MethodCall" \
                and strip(r_["recv"])["method"] == "match_prefix_char_slice"
            if rnone:
                dic = strip(r_["recv"])["recv"]
                src = init_of(dic)
                okcop = maps_table_field(src if src is not None else dic) == "statement.copulas"
                a_ = strip(strip(r_["recv"])["args"][0])
                while a_["k"] == "AddrOf":
                    a_ = strip(a_["e"])
                rnone = a_["k"] == "Index" and field_path(a_.get("e") or a_.get("base")) == tuple(env_name) and pi in json.dumps(a_["idx"])
            okc = lid and rnone
    ctx.ob("A-ATOM-LEX", "segment_atom: name continues iff identifier char and no copula starts here", okc and okcop, "closure shape ok: %s; copulas = statement.copulas: %s" % (okc, okcop))
    oke = False
    for n_ in hir.walk(sa["body"]):
        br_ = hir.as_branch(n_) if n_.get("k") == "If" else None
        if not br_ or br_[1] is None or not hir.leaves(br_[1]):
            continue
        c_ = strip(br_[0])
        if c_["k"] == "Binary" and c_["op"] in ("&&", "And"):
            l_, r_ = strip(c_["l"]), strip(c_["r"])
            # a conjunct bound to a named temporary (`let name_is_empty = right_border <= content_start;`) is read as the comparison
            if l_["k"] == "Path" and init_of(l_) is not None and strip(init_of(l_))["k"] == "Binary":
                l_ = strip(init_of(l_))
            if r_["k"] == "Path" and init_of(r_) is not None and strip(init_of(r_))["k"] == "Binary":
                r_ = strip(init_of(r_))
            if l_["k"] == "MethodCall" and l_["method"] == "is_empty":
                l_, r_ = r_, l_
            if not (l_["k"] == "Binary" and r_["k"] == "MethodCall" and r_["method"] == "is_empty"):
                continue
            lo, hi = (l_["l"], l_["r"]) if l_["op"] in (">=", "Ge") else (l_["r"], l_["l"]) if l_["op"] in ("<=", "Le") else (None, None)
            if lo is None:
                continue
            lo_i, hi_i = init_of(lo), init_of(hi)
            pfx = field_path(r_["recv"])
            # lo = <prefix>.chars().count(), hi = collect_some_prefix(..), and the emptiness test is on the same <prefix>
            ok_lo = lo_i is not None and strip(lo_i)["k"] == "MethodCall" and strip(lo_i)["method"] == "count" \
                and strip(strip(lo_i)["recv"])["k"] == "MethodCall" and strip(strip(lo_i)["recv"])["method"] == "chars" \
                and field_path(strip(strip(lo_i)["recv"])["recv"]) == pfx and pfx is not None
            ok_hi = hi_i is not None and strip(hi_i)["k"] == "MethodCall" and strip(hi_i)["method"] == "collect_some_prefix"
            oke = oke or (ok_lo and ok_hi)
    ctx.ob("A-ATOM-LEX", "segment_atom: rejected iff name and prefix are both empty", oke, "expected `if content_start >= right_border && prefix.is_empty() { return err }`")
    import tables as _t3
    _t3.rule_T_SPACE(ctx, _t3.Tables(ctx), models=("lex",))
    # the lexical segmenters advance by the length of the keyword they have just matched (B-LEN's FITS generators): a step taken with another
    # keyword's length stays in range but cuts the wrong token (seed c02-l)
    import blen as _blen
    _blen.rule_B_LEN(ctx)
    ctx.undecided = ["structural equality of the re-parsed tree for all vocabulary-consistent values (nesting- and value-dependent)"]
    ctx.assumptions = ["nar_dev_utils join helpers and dictionaries behave as summarised (source hash asserted)"]
    ctx.trusted = ["rustc HIR/MIR", "mirfacts driver", "pinned nar_dev_utils 0.42.3 source", "python rule layer"]
    return ("Structural necessary conditions of the lexical round trip: the two numeric-item segmenters are siblings (same call multiset, both "
            "drop empty pieces); formatter and parser use the same table fields role by role; the three lexical tables make segmentation by "
            "bracket matching invertible (content predicates cover digits/separators and reject bracket chars, prefix and suffix regions are "
            "disjoint, dictionaries are duplicate-free and tested longest-first under the dependency's iteration order); an empty truth is "
            "omitted and defaults back to empty, a budget is never omitted.")
