"""C14 -- component access, category and capacity of terms are mutually consistent."""
import hir, maps, eqhash
from hir import strip, field_path, Unrecognised
from maps import root_variant
from facts import AnchorMissing

LEVEL = "other"
ADAPTERS = {"into_iter", "iter", "collect", "copied", "cloned"}


def shape(e, binds, whole=()):
    """component shape of an arm body: ('self',) | ('fields',[pos..]) | ('iter',pos) | ('image-insert',ipos,vpos) |
    ('image-iter',ipos,vpos) | ('delegate',fn)"""
    e = strip(e)
    # image: { vec.insert(i, Placeholder); vec.into_iter() }
    if e["k"] == "Block" and len(e["stmts"]) == 1 and e.get("expr"):
        s = strip(e["stmts"][0]["expr"]) if e["stmts"][0]["k"] in ("Semi", "Expr") else None
        if s and s["k"] == "MethodCall" and s["method"] == "insert" and len(s["args"]) == 2:
            v = field_path(s["recv"])
            i = field_path(s["args"][0])
            ph = strip(s["args"][1])
            tail = shape(e["expr"], binds, whole)
            if v and i and ph["k"] == "Path" and hir.variant_of(ph["path"]) == "Placeholder" and tail == ("iter", binds.index(v[0])):
                return ("image-insert", binds.index(i[0]), binds.index(v[0]))
        raise Unrecognised("block shape in component arm", e)
    while e["k"] == "MethodCall" and e["method"] in ADAPTERS and not e["args"]:
        e = strip(e["recv"])
    if e["k"] == "Call":
        c = hir.callee(e) or ""
        if c.endswith("ImageIterator::<'a, I>::new") or c.endswith("ImageIterator::new") or "ImageIterator" in c and c.endswith("::new"):
            a0 = strip(e["args"][0])
            while a0["k"] == "MethodCall" and a0["method"] in ADAPTERS:
                a0 = strip(a0["recv"])
            v = field_path(a0)
            i = field_path(e["args"][1])
            if v and i and v[0] in binds and i[0] in binds:
                return ("image-iter", binds.index(i[0]), binds.index(v[0]))
        els = maps.vec_macro_elems(e)
        if els is not None:
            out = []
            for x in els:
                p = field_path(x)
                if p == ("self",) or (p and len(p) == 1 and p[0] in whole):          # `atom @ Term::Atom { .. } => vec![atom]` is `=> vec![self]`
                    return ("self",) if len(els) == 1 else ("?",)
                if not p or p[0] not in binds:
                    raise Unrecognised("vec! element is not a field", x)
                out.append(binds.index(p[0]))
            return ("fields", out)
    if e["k"] == "MethodCall" and field_path(e["recv"]) == ("self",):
        return ("delegate", e["method"])
    p = field_path(e)
    if p and len(p) == 1 and p[0] in binds:
        return ("iter", binds.index(p[0]))
    raise Unrecognised("component expression %s" % e["k"], e)


def expected_shape(storage):
    if not storage or storage in (["string"], ["uint"]):
        return ("self",)
    if storage == ["box"]:
        return ("fields", [0])
    if storage == ["box", "box"]:
        return ("fields", [0, 1])
    if storage in (["vec"], ["set"]):
        return ("iter", 0)
    if storage == ["uint", "vec"]:
        return ("iter", 1)
    return ("?",)


def rule_K_IMAGEITER(ctx):
    f = ctx.facts
    # ImageIterator::next
    ctx.rule("K-IMAGEITER", "ImageIterator::next yields the placeholder exactly when now_index == placeholder_index, otherwise the next raw "
             "component, and increments now_index by one on both branches; new() starts at 0 with the given index")
    nx = [it for p, it in f.hir.items() if it["name"] == "next" and "ImageIterator" in ((it.get("impl") or {}).get("self_ty") or "")]
    if len(nx) != 1:
        raise AnchorMissing("ImageIterator::next")
    ctx.fn(nx[0])
    # the decision in any spelling (`match c {true, false}`, `if c {..} else {..}`, the comparison bound to a temporary, operands in either
    # order); the increment either once in each branch or once before the branch (AFTER the comparison was taken)
    nb = strip(nx[0]["body"])
    lets_nx = hir.let_env(nx[0]["body"])
    brs = [hir.as_branch(n) for n in hir.walk(nx[0]["body"]) if n.get("k") in ("If", "Match") and hir.as_branch(n)]
    ok = False

    def is_inc(n):
        return n.get("k") == "AssignOp" and n["op"] in ("+=", "Add", "AddAssign") and field_path(n["l"]) == ("self", "now_index") \
            and strip(n["r"])["k"] == "Lit" and strip(n["r"])["lit"]["v"] == 1
    if len(brs) == 1 and brs[0][1] is not None and brs[0][2] is not None:
        cnd, th, el = brs[0]
        c_use = strip(cnd)
        c = strip(hir.through_lets(cnd, lets_nx))
        ok = c["k"] == "Binary" and c["op"] in ("==", "Eq") and {field_path(c["l"]), field_path(c["r"])} == {("self", "now_index"), ("self", "placeholder_index")}
        all_incs = [n for n in hir.walk(nx[0]["body"]) if is_inc(n)]
        in_th = [n for n in hir.walk(th) if is_inc(n)]
        in_el = [n for n in hir.walk(el) if is_inc(n)]
        per_branch = len(in_th) == 1 and len(in_el) == 1 and len(all_incs) == 2
        # hoisted: exactly one increment, outside the branches, and the comparison was evaluated (bound to a temporary) before it
        hoisted = False
        if len(all_incs) == 1 and not in_th and not in_el and nb["k"] == "Block" and c_use["k"] == "Path":
            order = []
            for st_ in nb["stmts"]:
                if st_["k"] == "Let" and st_["pat"].get("hid") == c_use["path"].get("hid"):
                    order.append("cmp")
                elif st_["k"] in ("Semi", "Expr") and is_inc(strip(st_["expr"])):
                    order.append("inc")
            hoisted = order == ["cmp", "inc"]

        def tail_ok(br, placeholder):
            tail = hir.last_expr(br)
            if placeholder:
                return tail["k"] == "Call" and hir.callee_name(tail) == "Some" and any(
                    x.get("k") == "Path" and hir.variant_of(x["path"]) == "Placeholder" for x in hir.walk(tail))
            return tail["k"] == "MethodCall" and tail["method"] == "next" and field_path(tail["recv"]) == ("self", "raw_components")
        ok = ok and (per_branch or hoisted) and tail_ok(th, True) and tail_ok(el, False)
    # nothing else may end the iteration: a `?` / `return` in front of the decision (seed c01-n: `self.raw_components.peek()?;` "fuses" the
    # iterator and drops a placeholder that is due after the last component)
    early = [n for n in hir.walk(nx[0]["body"]) if n.get("k") == "Ret" or (n.get("k") == "Match" and "TryDesugar" in str(n.get("source", "")))]
    ctx.ob("K-IMAGEITER", "next()", ok and not early, "shape of ImageIterator::next changed" if not early else "next() can end the iteration before the placeholder decision (`?` / return)")
    nw = [it for p, it in f.hir.items() if it["name"] == "new" and "ImageIterator" in ((it.get("impl") or {}).get("self_ty") or "")]
    ok = False
    if len(nw) == 1:
        b = hir.last_expr(nw[0]["body"])
        if b["k"] == "Struct":
            fl = {x["name"]: x["expr"] for x in b["fields"]}
            nwp = [q.get("name") for q in nw[0]["params"]]           # new(raw_components, placeholder_index): by position
            ok = (len(nwp) == 2 and field_path(fl["raw_components"]) == (nwp[0],) and field_path(fl["placeholder_index"]) == (nwp[1],)
                  and strip(fl["now_index"])["k"] == "Lit" and strip(fl["now_index"])["lit"]["v"] == 0)
    ctx.ob("K-IMAGEITER", "new()", ok, "")

def run(ctx):
    f = ctx.facts
    st, cap = eqhash.rule_H_STORAGE(ctx)
    variants = list(st)
    # ---- category: partition + agreement with the keyword role that produces each variant
    ctx.rule("K-CATEGORY", "get_category is an exhaustive match (no wildcard); Atom <=> capacity Atom; each variant's category equals the role "
             "of the format keyword that the parser maps to it (prefix->Atom, connecter/set brackets->Compound, copula->Statement)")
    catfn = eqhash.trait_fn(ctx, "get_category", "GetCategory")
    cat = eqhash.variant_value_map(ctx, catfn, "K-CATEGORY")
    ev, ctors = maps.rule_M_CTOR(ctx)
    P = maps.ParserMaps(ctx, ev)
    role = {}
    for fld, t in P.term.items():
        v = root_variant(t)
        if v is None:
            continue
        r = "Atom" if fld.startswith("atom.") else ("Statement" if fld.startswith("statement.") else "Compound")
        if fld.startswith("statement.") and v == "Inheritance" and fld != "statement.copula_inheritance":
            continue
        role.setdefault(v, r)
    for v in variants:
        c = cat.get(v)
        ctx.ob("K-CATEGORY", "%s category/capacity" % v, (c == "Atom") == (cap.get(v) == "Atom") and c in ("Atom", "Compound", "Statement"),
               "category %s, capacity %s" % (c, cap.get(v)))
        ctx.ob("K-CATEGORY", "%s category = keyword role" % v, role.get(v) == c, "category %s but produced from a %s keyword" % (c, role.get(v)))
    # predicates is_atom/is_compound/is_statement and capacity predicates
    ctx.rule("K-PRED", "the default predicates compare get_category()/get_capacity() with exactly their own class (is_capacity_binary = "
             "BinaryVec|BinarySet, is_capacity_multi = Vec|Set)")
    want = {"is_atom": {"Atom"}, "is_compound": {"Compound"}, "is_statement": {"Statement"},
            "is_capacity_atom": {"Atom"}, "is_capacity_unary": {"Unary"}, "is_capacity_binary": {"BinaryVec", "BinarySet"},
            "is_capacity_binary_vec": {"BinaryVec"}, "is_capacity_binary_set": {"BinarySet"}, "is_capacity_multi": {"Vec", "Set"},
            "is_capacity_vec": {"Vec"}, "is_capacity_set": {"Set"}}
    for nm, cls in sorted(want.items()):
        its = [it for p, it in f.hir.items() if it["name"] == nm and "api::data_structure::term" in p]
        if len(its) != 1:
            raise AnchorMissing("predicate %s" % nm)
        ctx.fn(its[0])
        b = hir.last_expr(its[0]["body"])
        got = None
        getter = "get_category" if nm in ("is_atom", "is_compound", "is_statement") else "get_capacity"
        if b["k"] == "Binary" and b["op"] == "==":
            l, r = strip(b["l"]), strip(b["r"])
            if l["k"] == "MethodCall" and l["method"] == getter and r["k"] == "Path":
                got = {hir.variant_of(r["path"])}
        elif b["k"] == "Match" and strip(b["scrut"])["k"] == "MethodCall" and strip(b["scrut"])["method"] == getter:
            got = set()
            for v, arm, pat in hir.arms_by_variant(b):
                bb = strip(arm["body"])
                if bb["k"] == "Lit" and bb["lit"]["v"] is True:
                    got.add(v)
        ctx.ob("K-PRED", nm, got == cls, "tests %s, expected %s" % (got, cls))

    # ---- component accessors
    ctx.rule("K-COMPONENTS", "per variant, get_components / extract_terms yield: the term itself (atoms), the boxed operand(s) in stored order, "
             "the stored vector/set via plain iteration; no wildcard arms; extract_terms re-inserts the image placeholder with "
             "vec.insert(index, Placeholder); get_components_including_placeholder uses ImageIterator(vec.iter(), index) for images and "
             "delegates otherwise")
    gc = f.hir_fn("get_components", module="enum_narsese::term")
    ctx.fn(gc)
    et = eqhash.trait_fn(ctx, "extract_terms", "ExtractTerms")
    for it, label in ((gc, "get_components"), (et, "extract_terms")):
        m = hir.top_match(it)
        seen = set()
        for v, arm, pat in hir.arms_by_variant(m):
            if v == "_":
                ctx.ob("K-COMPONENTS", "%s has no wildcard arm" % label, False, "wildcard arm")
                continue
            seen.add(v)
            binds = hir.pat_bindings(pat)
            try:
                sh = shape(arm["body"], binds)
            except Unrecognised as u:
                ctx.unrecognised("K-COMPONENTS", "%s %s" % (label, v), u.what)
                continue
            want_sh = expected_shape(st[v])
            if label == "extract_terms" and v.startswith("Image"):
                want_sh = ("image-insert", 0, 1)
            ctx.ob("K-COMPONENTS", "%s %s" % (label, v), sh == want_sh, "yields %s, storage %s requires %s" % (sh, st[v], want_sh),
                   "%s:%s" % (it["span"]["file"], arm["line"]))
        for v in variants:
            if v not in seen:
                ctx.ob("K-COMPONENTS", "%s %s has an arm" % (label, v), False, "missing")
    gi = f.hir_fn("get_components_including_placeholder", module="enum_narsese::term")
    ctx.fn(gi)
    m = hir.top_match(gi)
    imgs = set()
    for v, arm, pat in hir.arms_by_variant(m):
        binds = hir.pat_bindings(pat)
        try:
            sh = shape(arm["body"], binds)
        except Unrecognised as u:
            ctx.unrecognised("K-COMPONENTS", "get_components_including_placeholder %s" % v, u.what)
            continue
        if v == "_":
            ctx.ob("K-COMPONENTS", "get_components_including_placeholder others delegate to get_components", sh == ("delegate", "get_components"), "%s" % (sh,))
        else:
            imgs.add(v)
            ctx.ob("K-COMPONENTS", "get_components_including_placeholder %s" % v, sh == ("image-iter", 0, 1), "%s" % (sh,))
    ctx.ob("K-COMPONENTS", "get_components_including_placeholder special-cases exactly the images", imgs == {v for v in variants if v.startswith("Image")}, "%s" % sorted(imgs))
    rule_K_IMAGEITER(ctx)

    # ---- lexical side
    ctx.rule("K-LEXICAL", "lexical Term: category Atom/Compound(Compound|Set)/Statement, capacity Atom/Vec/BinaryVec, extract_terms returns the "
             "stored components in order; category(fold(x)) = category(x): every constructor reachable in fold_atom is Atom-category, in "
             "fold_compound/fold_set Compound, in fold_statement Statement")
    LT = "lexical::term::Term"
    lcat = eqhash.variant_value_map(ctx, eqhash.trait_fn(ctx, "get_category", "GetCategory", LT), "K-LEXICAL")
    lcap = eqhash.variant_value_map(ctx, eqhash.trait_fn(ctx, "get_capacity", "GetCapacity", LT), "K-LEXICAL")
    ctx.ob("K-LEXICAL", "category map", lcat == {"Atom": "Atom", "Compound": "Compound", "Set": "Compound", "Statement": "Statement"}, "%s" % lcat)
    ctx.ob("K-LEXICAL", "capacity map", lcap == {"Atom": "Atom", "Compound": "Vec", "Set": "Vec", "Statement": "BinaryVec"}, "%s" % lcap)
    let_ = eqhash.trait_fn(ctx, "extract_terms", "ExtractTerms", LT)
    mm = [n for n in hir.walk(let_["body"]) if n.get("k") == "Match"]
    if not mm:
        raise AnchorMissing("match in lexical extract_terms")
    for v, arm, pat in hir.arms_by_variant(mm[0]):
        names = [fd["name"] for fd in pat.get("fields", [])] if pat["k"] == "Struct" else []
        binds = [fd["pat"].get("name") for fd in pat.get("fields", [])] if pat["k"] == "Struct" else []
        whole = []
        q_ = arm["pat"]
        while q_.get("k") in ("Ref", "Box", "Deref") or (q_.get("k") == "Binding" and q_.get("sub")):
            if q_["k"] == "Binding":
                whole.append(q_["name"])
            q_ = q_["pat"] if q_["k"] != "Binding" else q_["sub"]
        try:
            sh = shape(arm["body"], binds, tuple(whole))
        except Unrecognised as u:
            ctx.unrecognised("K-LEXICAL", "extract_terms %s" % v, u.what)
            continue
        if v == "Atom":
            ok = sh == ("self",)
        elif v in ("Compound", "Set"):
            ok = sh[0] == "iter" and names[sh[1]] == "terms"
        else:
            ok = sh[0] == "fields" and [names[i] for i in sh[1]] == ["subject", "predicate"]
        ctx.ob("K-LEXICAL", "extract_terms %s" % v, ok, "%s over fields %s" % (sh, names))
    F = maps.FoldMaps(ctx, ev)
    fam = {"atom.": "Atom", "compound.": "Compound", "statement.": "Statement"}
    for fld, t in sorted(F.term.items()):
        v = root_variant(t)
        if v is None:
            continue
        want_c = [c for k, c in fam.items() if fld.startswith(k)][0]
        ctx.ob("K-LEXICAL", "fold %s -> %s keeps category %s" % (fld, v, want_c), cat.get(v) == want_c, "enum category %s" % cat.get(v))

    # component order is preserved end to end (formatter, templates, parsers, fold, accessors)
    import maps as _maps
    _maps.rule_O_ORDER(ctx)
    # naming-law lints over the modules this property lives in (sibling slips: truth<->budget, stamp<->punctuation, left<->right, swapped arguments)
    import roles as _roles
    _roles.rule_R_ROLE(ctx, modules=('enum_narsese::term', 'lexical::term', 'api::data_structure::term'))
    _roles.rule_A_NAMES(ctx, modules=('enum_narsese::term', 'lexical::term', 'api::data_structure::term'))
    import lskel as _lskel
    _lskel.rule_L_SKELETON(ctx, which=('term',), floor=10)
    # base_num: "atoms and unary one, binary two" (and the variable-arity classes above two)
    bn = [it for p_, it in f.hir.items() if it["name"] == "base_num" and "term_capacity" in p_]
    if len(bn) != 1:
        raise AnchorMissing("TermCapacity::base_num")
    ctx.fn(bn[0])
    got_bn = {}
    for v, arm, pat in hir.arms_by_variant(hir.top_match(bn[0])):
        b_ = strip(arm["body"])
        got_bn[v] = b_["lit"]["v"] if b_["k"] == "Lit" else None
    want_bn = {"Atom": 1, "Unary": 1, "BinaryVec": 2, "BinarySet": 2}
    ctx.ob("K-PRED", "TermCapacity::base_num: Atom = Unary = 1, BinaryVec = BinarySet = 2, Vec = Set > 2",
           all(got_bn.get(k_) == v_ for k_, v_ in want_bn.items()) and isinstance(got_bn.get("Vec"), int) and got_bn.get("Vec") == got_bn.get("Set") and got_bn["Vec"] > 2,
           "%s" % got_bn)
    ctx.undecided = ["nothing value-dependent remains except set iteration order, which the property treats as a set"]
    ctx.assumptions = ["Vec::insert(i, x) places x at position i", "iterating a Vec preserves order"]
    ctx.trusted = ["rustc HIR", "mirfacts driver", "python rule layer"]
    return ("Sibling-agreement check over six hand-written exhaustive matches on the 30 constructors (storage, capacity, category, "
            "get_components, extract_terms, get_components_including_placeholder) plus ImageIterator and the lexical counterparts: each row "
            "of the 30-row table must have the shape its storage kind dictates, images re-insert the placeholder at their own index, and the "
            "fold keeps the category.")
