"""C08 -- parsing depends only on format and input (no state outlives one parse)."""
import hir, mir, maps
from hir import strip, field_path
from facts import AnchorMissing

LEVEL = "other"

ENUM_STATE = "conversion::string::impl_enum::parser::ParseState"
LEX_STATE = "conversion::string::impl_lexical::parser::structs::ParseState"
INTERIOR = ("Cell<", "RefCell<", "Mutex<", "RwLock<", "Atomic", "OnceCell<", "OnceLock<", "UnsafeCell<", "LazyLock<", "LazyCell<",
            "LocalKey<", "Condvar", "mpsc::")


def self_field_writes(body, state_ty):
    """fields of the state struct (reached through a `&mut State` argument) that the body assigns, mutably borrows or drops"""
    g = mir.cfg(body)
    out = set()
    args = [i for i in range(1, body["arg_count"] + 1) if state_ty in body["locals"][i]["ty"] and body["locals"][i]["ty"].startswith("&mut")]
    if not args:
        return out

    def field_of(place):
        r, p = g.resolve_place(place)
        if r[0] == "arg" and r[1] in args and p:
            return p[0]
        return None
    for bi in sorted(g.reach):
        bl = body["blocks"][bi]
        for s in bl["stmts"]:
            if s["k"] == "Assign":
                # store through the state reference
                pl = s["place"]
                if pl["proj"]:
                    fld = field_of(pl)
                    if fld:
                        out.add(fld)
                rv = s["rv"]
                if rv["k"] in ("Ref", "RawPtr") and (rv.get("mut") or rv["k"] == "RawPtr") and rv["place"]["proj"]:
                    fld = field_of(rv["place"])
                    if fld:
                        out.add(fld)
        t = bl["term"]
        if t["k"] == "Call" and t["dest"]["proj"]:
            fld = field_of(t["dest"])
            if fld:
                out.add(fld)
    return out


REVIEWED_STATE_FIELDS = {"format": "shared reference to the immutable format table", "env": "the input as chars (replaced by reset_to)",
                         "len_env": "env.len() (coupled, P-COUPLE)", "head": "the cursor (reset by reset_to)",
                         "mid_result": "the five optional item slots (cleared by reset_to)"}


def rule_S_FIELDS(ctx):
    """every field of the enum ParseState is reviewed: a new field (cache, buffer, memo) is new state that can carry information from one
    token / input to the next and that none of the token-level rules models"""
    f = ctx.facts
    ctx.rule("S-FIELDS", "the enum ParseState consists of exactly the reviewed fields (format, env, len_env, head, mid_result); the lexical ParseState "
             "of `format` only: any further field is parser state whose effect on later tokens / inputs has not been reviewed")
    adt = f.adts.get(ENUM_STATE)
    if adt is None:
        raise AnchorMissing("enum ParseState")
    fields = [x["name"] for x in adt["variants"][0]["fields"]]
    for fld in fields:
        ctx.ob("S-FIELDS", "enum ParseState.%s is a reviewed field" % fld, fld in REVIEWED_STATE_FIELDS,
               "new parser state: reviewed fields are %s" % sorted(REVIEWED_STATE_FIELDS))
    ctx.ob("S-FIELDS", "enum ParseState has all reviewed fields", set(REVIEWED_STATE_FIELDS) <= set(fields), "%s" % fields)
    lex = [a for p, a in f.adts.items() if p.endswith("impl_lexical::parser::structs::ParseState")]
    if len(lex) == 1:
        lf = [x["name"] for x in lex[0]["variants"][0]["fields"]]
        ctx.ob("S-FIELDS", "lexical ParseState holds only `format`", lf == ["format"], "%s" % lf)
    # no thread_local / static caches in the parser modules (a cache keyed by address or name is state too)
    tl = sorted(p for p, g_ in f.globals.items() if ("impl_enum::parser" in p or "impl_lexical::parser" in p) and g_.get("kind") in ("static", "thread_local"))
    ctx.ob("S-FIELDS", "no statics / thread-locals in the parser modules", not tl, "%s" % tl[:4])


def rule_S_RESET(ctx):
    f = ctx.facts
    cg = mir.callgraph(f)
    # ---------------- S-RESET
    ctx.rule("S-RESET", "let M = fields of the enum ParseState written by any function reachable from the FromParse<(), &mut ParseState> "
             "entry points (the state a parse leaves behind) and R = fields that reset_to overwrites on every path with a value independent "
             "of the old state; then M ∪ {env, len_env} ⊆ R, and wherever from_parse((), &mut state) is called in a loop a call of such a "
             "complete reset dominates it inside the loop body")
    adt = f.adts.get(ENUM_STATE)
    if adt is None:
        raise AnchorMissing("enum ParseState")
    fields = [x["name"] for x in adt["variants"][0]["fields"]]
    ctx.floor("enum ParseState fields", len(fields), 5)
    roots = [p for p, b in f.mir.items() if b["name"] == "from_parse" and "&'s mut " + ENUM_STATE in ((b.get("impl") or {}).get("trait") and p or "")]
    roots = [p for p, b in f.mir.items() if b["name"] == "from_parse" and "impl_enum::parser" in p and "FromParse<()" in p]
    ctx.floor("FromParse<(), &mut ParseState> entry points", len(roots), 6)
    reach = cg.reachable(roots)
    M = {}
    for p in sorted(reach):
        b = f.mir[p]
        w = self_field_writes(b, ENUM_STATE)
        for fld in w:
            M.setdefault(fld, []).append(b["name"])
        if w:
            ctx.fn(b)
    ctx.extra["state_fields_written_by_a_parse"] = {k: sorted(set(v)) for k, v in M.items()}
    rt = f.mir_fn("reset_to", module="impl_enum::parser")
    ctx.fn(rt)
    g = mir.cfg(rt)
    # R: fields stored on every path to Return, value not derived from old state
    rets = [bi for bi in g.reach if rt["blocks"][bi]["term"]["k"] == "Return"]
    stores = {}
    for bi in sorted(g.reach):
        if rt["blocks"][bi]["cleanup"]:
            continue
        for si, s in enumerate(rt["blocks"][bi]["stmts"]):
            if s["k"] == "Assign" and s["place"]["proj"]:
                r, p = g.resolve_place(s["place"])
                if r == ("arg", 1) and len(p) == 1:
                    stores.setdefault(p[0], []).append((bi, si, s["rv"]))
    R = set()
    for fld, sts in stores.items():
        on_all = all(any(g.dominates(bi, rb) for bi, _, _ in sts) for rb in rets)
        indep = True
        for bi, si, rv in sts:
            for o in mir._operands(rv):
                if not independent(g, o, stores, (bi, si), 0):
                    indep = False
        if on_all and indep:
            R.add(fld)
    ctx.extra["fields_reset_by_reset_to"] = sorted(R)
    need = set(M) | {"env", "len_env"}
    for fld in sorted(need):
        ctx.ob("S-RESET", "reset_to overwrites ParseState.%s" % fld, fld in R,
               "field `%s` is written during a parse by %s but survives reset_to (reset set = %s): a slot filled for one input leaks into the next"
               % (fld, sorted(set(M.get(fld, ["-"])))[:6], sorted(R)),
               "%s:%s" % (rt["span"]["file"], rt["span"]["line"]))
    # loops calling from_parse on a reused state
    n_loop_sites = 0
    for p, b in f.mir.items():
        gg = mir.cfg(b)
        for h, body_blocks, tails in gg.loops():
            for bi in sorted(body_blocks):
                t = b["blocks"][bi]["term"]
                if t["k"] == "Call" and mir.callee_name(t) in ("from_parse", "parse") and any(
                        ENUM_STATE in (a.get("place", {}).get("ty", "")) and "&mut" in a["place"]["ty"] for a in t["args"] if a["k"] in ("Move", "Copy")):
                    n_loop_sites += 1
                    ok = False
                    for bj in sorted(body_blocks):
                        tt = b["blocks"][bj]["term"]
                        if tt["k"] == "Call" and mir.callee_name(tt) == "reset_to" and gg.dominates(bj, bi):
                            ok = True
                    ctx.ob("S-RESET", "%s: reset dominates from_parse inside the loop" % b["name"], ok,
                           "a parser state is reused across loop iterations without a dominating reset", "%s:%s" % (b["span"]["file"], t["line"]))
                    ctx.fn(b)
    # ... and closures handed to an iterator adaptor (`inputs.into_iter().map(|input| { state.reset_to(..); T::from_parse(&mut state) })`): the
    # closure body is the loop body, the state is a captured `&mut`
    for p, b in f.mir.items():
        if "{closure" not in p:
            continue
        gg = mir.cfg(b)
        for bi, t in gg.calls():
            if mir.callee_name(t) in ("from_parse", "parse") and any(
                    ENUM_STATE in (a.get("place", {}).get("ty", "")) and "&mut" in a["place"]["ty"] for a in t["args"] if a["k"] in ("Move", "Copy")):
                # only a state that lives outside the closure (reached through the closure environment, argument 1) is reused
                roots = [gg.resolve_operand(a)[0] for a in t["args"] if a["k"] in ("Move", "Copy") and ENUM_STATE in (a.get("place", {}).get("ty", ""))]
                if not any(r == ("arg", 1) for r in roots):
                    continue
                n_loop_sites += 1
                ok = any(mir.callee_name(tt) == "reset_to" and gg.dominates(bj, bi) for bj, tt in gg.calls())
                ctx.ob("S-RESET", "%s: reset dominates from_parse inside the closure" % b["name"], ok,
                       "a captured parser state is reused across calls of the closure without a dominating reset", "%s:%s" % (b["span"]["file"], t["line"]))
                ctx.fn(b)
    ctx.floor("loops that reuse a parser state", n_loop_sites, 1)



def run(ctx):
    f = ctx.facts
    cg = mir.callgraph(f)
    rule_S_RESET(ctx)
    fields = [x["name"] for x in f.adts[ENUM_STATE]["variants"][0]["fields"]]
    # ---------------- S-ALIGN: one result per input, in input order
    ctx.rule("S-ALIGN", "parse_multi yields exactly one result per input at the input's own position: on every path around the input loop "
             "exactly one `results.push(from_parse((), &mut state))` is executed (no input is skipped, none contributes twice), and the "
             "returned vector is that `results`")
    pm = f.mir_fn("parse_multi", module="impl_enum::parser")
    ctx.fn(pm)
    gpm = mir.cfg(pm)
    loops_ = gpm.loops()
    ok_align, why = False, "no input loop found"
    for h, blocks, tails in loops_:
        nexts = [bi for bi in blocks if pm["blocks"][bi]["term"]["k"] == "Call" and mir.callee_name(pm["blocks"][bi]["term"]) == "next"]
        pushes = [bi for bi in blocks if pm["blocks"][bi]["term"]["k"] == "Call" and mir.callee_name(pm["blocks"][bi]["term"]) == "push"]
        if not nexts:
            continue
        if len(pushes) != 1:
            why = "%d push sites in the input loop" % len(pushes)
            continue
        pb = pushes[0]
        pt = pm["blocks"][pb]["term"]
        src = gpm.resolve_operand(pt["args"][1])
        from_parse = src[0][0] == "call" and mir.callee_name(src[0][1]) == "from_parse"
        # every cycle through the loop passes the push block: remove it and the rest must be acyclic
        import progress
        rest = set(blocks) - {pb}
        cyc = progress.has_cycle(rest, {u: [v for v in gpm.succ[u] if v in rest] for u in rest})
        ok_align = from_parse and not cyc
        why = "a path around the input loop skips the push" if cyc else ("pushed value is not the from_parse result" if not from_parse else "")
        # the vector returned is the one pushed to
        vec_root = gpm.resolve_operand(pt["args"][0])
        rets = [bi for bi in gpm.reach if pm["blocks"][bi]["term"]["k"] == "Return"]
        ret_src = None
        for bi in gpm.reach:
            for st_ in pm["blocks"][bi]["stmts"]:
                if st_["k"] == "Assign" and st_["place"]["local"] == 0 and not st_["place"]["proj"] and st_["rv"]["k"] == "Use":
                    ret_src = gpm.resolve_operand(st_["rv"]["op"])
        if ok_align and (ret_src is None or ret_src[0] != vec_root[0]):
            ok_align, why = False, "the returned vector is not the one results are pushed to"
    if not loops_:
        # the iterator form: `inputs.into_iter().map(|input| { .. from_parse((), &mut state) }).collect()` -- one result per input in input
        # order iff nothing but `map` stands between the inputs and `collect`, and the closure's value is the from_parse result on every path
        ret_src = None
        for bi in sorted(gpm.reach):
            t_ = pm["blocks"][bi]["term"]
            if t_["k"] == "Call" and t_["dest"]["local"] == 0 and not t_["dest"]["proj"]:
                ret_src = t_
        chain, cur = [], ret_src
        while cur is not None and cur["args"]:
            chain.append(mir.callee_name(cur))
            r_ = gpm.resolve_operand(cur["args"][0])
            if r_[0][0] == "call" and not r_[1]:
                cur = r_[0][1]
                continue
            chain.append(r_[0])
            break
        cls = [b_ for p_, b_ in f.mir.items() if p_.startswith(pm["path"] + "::{closure")]
        ok_cl = False
        if len(cls) == 1:
            gc = mir.cfg(cls[0])
            fps = [(bi, t_) for bi, t_ in gc.calls("from_parse")]
            rets_c = [bi for bi in gc.reach if cls[0]["blocks"][bi]["term"]["k"] == "Return"]
            ok_cl = len(fps) == 1 and fps[0][1]["dest"]["local"] == 0 and not fps[0][1]["dest"]["proj"] and all(gc.dominates(fps[0][0], r_) for r_ in rets_c) \
                and not [1 for bi in gc.reach for s_ in cls[0]["blocks"][bi]["stmts"] if s_["k"] == "Assign" and s_["place"]["local"] == 0]
        ok_align = chain[:3] == ["collect", "map", "into_iter"] and len(chain) == 4 and chain[3] == ("arg", 2) and ok_cl
        why = "" if ok_align else "iterator form: adapter chain %s, closure value is the from_parse result: %s" % (chain, ok_cl)
    ctx.ob("S-ALIGN", "parse_multi: one pushed result per input", ok_align, why, "%s:%s" % (pm["span"]["file"], pm["span"]["line"]))

    rule_S_FIELDS(ctx)
    # ---------------- S-SIBLING: the reused state after reset_to(input, head) equals the fresh state from_env(format, _build_env(input), head)
    ctx.rule("S-SIBLING", "reset_to establishes field by field what the fresh route establishes: env := _build_env(input) (the only str -> env "
             "conversion), len_env := env.len() of that value (P-COUPLE; from_env couples the same way, S-FRESH), head := the head argument, "
             "mid_result := new() -- so parse_multi's i-th parse starts from the state parse(input_i) starts from")
    import panics
    panics.rule_P_COUPLE(ctx)
    rb = f.mir_fn("reset_to", module="impl_enum::parser")
    ctx.fn(rb)
    rg = mir.cfg(rb)
    stores = {}
    for bi in sorted(rg.reach):
        if rb["blocks"][bi]["cleanup"]:
            continue
        for st_ in rb["blocks"][bi]["stmts"]:
            if st_["k"] == "Assign" and st_["place"]["proj"]:
                r_, pth = rg.resolve_place(st_["place"])
                if r_ == ("arg", 1) and len(pth) == 1:
                    stores[pth[0]] = st_["rv"]
    def src_of(rv):
        return rg.resolve_operand(rv["op"]) if rv["k"] == "Use" else None
    e = src_of(stores["env"]) if "env" in stores else None
    ok = e is not None and e[0][0] == "call" and mir.callee_name(e[0][1]) == "_build_env" and rg.resolve_operand(e[0][1]["args"][0])[0] == ("arg", 2)
    ctx.ob("S-SIBLING", "reset_to: env := _build_env(input)", ok, "%s" % (e[0][0] if e else None,))
    h = src_of(stores["head"]) if "head" in stores else None
    ctx.ob("S-SIBLING", "reset_to: head := the head argument", h is not None and h[0] == ("arg", 3) and not h[1], "%s" % (h,))
    # ---------------- S-FRESH
    ctx.rule("S-FRESH", "every other entry point builds its ParseState by the one struct aggregate in from_env (all fields initialised, "
             "mid_result from NarseseOptions::new) and uses it for one parse; parse and parse_chars converge on from_env + ParseState::parse "
             "with head 0; _build_env (= input.chars().collect()) is the only string->env conversion")
    builders = []
    for p, b in f.mir.items():
        for bl in b["blocks"]:
            for s in bl["stmts"]:
                if s["k"] == "Assign" and s["rv"]["k"] == "Aggregate" and s["rv"].get("agg") == "Adt" and s["rv"]["adt"] == ENUM_STATE:
                    builders.append((b, s["rv"]))
    ctx.ob("S-FRESH", "ParseState constructed only in from_env", [b["name"] for b, _ in builders] == ["from_env"],
           "constructed in %s" % [b["name"] for b, _ in builders])
    if builders:
        b, rv = builders[0]
        g2 = mir.cfg(b)
        names = rv["field_names"]
        ctx.ob("S-FRESH", "from_env initialises all fields", sorted(names) == sorted(fields), "%s" % names)
        mi = names.index("mid_result") if "mid_result" in names else None
        src = g2.resolve_operand(rv["ops"][mi]) if mi is not None else None
        ok = src is not None and src[0][0] == "call" and mir.callee_name(src[0][1]) == "new" and not src[0][1]["args"]
        ctx.ob("S-FRESH", "from_env starts with an empty mid_result", ok, "mid_result initialiser: %s" % (src,))
        li = names.index("len_env")
        src = g2.resolve_operand(rv["ops"][li])
        ok = src[0][0] == "call" and mir.callee_name(src[0][1]) == "len"
        if ok:
            r2, p2 = g2.resolve_operand(src[0][1]["args"][0])
            ei = g2.resolve_operand(rv["ops"][names.index("env")])
            ok = r2 == ei[0]
        ctx.ob("S-FRESH", "from_env couples len_env to env.len()", ok, "")
    # convergence of the two public entry impls
    for p in [p for p, b in f.mir.items() if b["name"] == "from_parse" and "impl_enum::parser" in p and "FromParse<()" not in p]:
        b = f.mir[p]
        ctx.fn(b)
        r = cg.reachable([p])
        names = {f.mir[x]["name"] for x in r}
        ctx.ob("S-FRESH", "%s reaches from_env and ParseState::parse" % short(p), "from_env" in names and "parse" in names, "reaches %s" % sorted(names)[:8])
        ctx.ob("S-FRESH", "%s does not reuse a state (no reset_to)" % short(p), "reset_to" not in names, "")
    be = f.hir_fn("_build_env", module="impl_enum::parser")
    tail = hir.last_expr(be["body"])
    ok = tail["k"] == "MethodCall" and tail["method"] == "collect" and hir.strip(tail["recv"])["k"] == "MethodCall" and hir.strip(tail["recv"])["method"] == "chars"
    ctx.ob("S-FRESH", "_build_env = input.chars().collect()", ok, "")
    users = sorted({b["name"] for p, b in f.mir.items() for bi, t in mir.cfg(b).calls("_build_env")})
    ctx.ob("S-FRESH", "_build_env callers", set(users) <= {"new", "reset_to"}, "called from %s" % users)
    # head starts at 0 at every construction/reset site
    for p, b in f.mir.items():
        gg = mir.cfg(b)
        for nm, idx in (("from_env", 2), ("reset_to", 2), ("new", 2)):
            for bi, t in gg.calls(nm):
                cal = mir.callee_path(t) or ""
                if "impl_enum::parser::ParseState" not in cal:
                    continue
                if b["name"] in ("new",):
                    continue  # forwards its own parameter
                a = t["args"][idx]
                ok = a["k"] == "Const" and a.get("v") == 0
                ctx.ob("S-FRESH", "%s calls %s with head 0" % (b["name"], nm), ok, "head argument is %s" % gg.path_s(a))

    # ---------------- S-FREEZE
    ctx.rule("S-FREEZE", "no shared mutable state: the lexical ParseState holds only shared references; every static/const of the crate "
             "is Freeze except the init-once lazy_static cell of a Freeze payload; no static mut, thread_local or interior-mutability type "
             "occurs in any local, field or global type")
    lad = f.adts.get(LEX_STATE)
    if lad is None:
        raise AnchorMissing("lexical ParseState")
    for fd in lad["variants"][0]["fields"]:
        ctx.ob("S-FREEZE", "lexical ParseState.%s is a shared reference" % fd["name"], fd["ty"].startswith("&") and not fd["ty"].startswith("&mut")
               and not any(x in fd["ty"] for x in INTERIOR), "type %s" % fd["ty"])
    ng = 0
    for p, g_ in sorted(f.globals.items()):
        ng += 1
        if g_["kind"] == "static" and g_["mutable"]:
            ctx.ob("S-FREEZE", "static mut %s" % p, False, "mutable static")
            continue
        if g_["freeze"]:
            ctx.ob("S-FREEZE", "global %s" % short(p), True)
        else:
            ty = g_["ty"]
            ok = ty.startswith("lazy_static::lazy::Lazy<") and payload_freeze(f, ty[len("lazy_static::lazy::Lazy<"):-1])
            ctx.ob("S-FREEZE", "global %s" % short(p), ok, "type %s is not Freeze and is not a lazy_static cell of a Freeze payload" % ty)
    ctx.floor("statics/consts scanned", ng, 10)
    bad = []
    nt = 0
    for p, b in f.mir.items():
        for l in b["locals"]:
            nt += 1
            if any(x in l["ty"] for x in INTERIOR) and "lazy_static::lazy::Lazy" not in l["ty"]:
                bad.append((b["name"], l["ty"]))
        for bl in b["blocks"]:
            for s in bl["stmts"]:
                if s["k"] == "Assign" and s["rv"]["k"] == "ThreadLocalRef":
                    bad.append((b["name"], "thread_local " + s["rv"]["def"]))
    for a in f.adts.values():
        for v in a["variants"]:
            for fd in v["fields"]:
                nt += 1
                if any(x in fd["ty"] for x in INTERIOR):
                    bad.append((a["path"], fd["ty"]))
    ctx.extra["types_scanned"] = nt
    ctx.ob("S-FREEZE", "no interior-mutability type anywhere in the crate", not bad, "%s" % bad[:5])

    # the enum parser's productions: which keyword is tested / skipped / handed to which sub-parser, which slot is filled (P-SKELETON), in terms of
    # cursor primitives with exactly their reviewed meaning (P-PRIM)
    import pskel as _pskel
    _pskel.rule_P_PRIM(ctx)
    _pskel.rule_P_SKELETON(ctx)
    # naming-law lints over the modules this property lives in (sibling slips: truth<->budget, stamp<->punctuation, left<->right, swapped arguments)
    import roles as _roles
    _roles.rule_R_ROLE(ctx, modules=('conversion::string::impl_enum::parser', 'conversion::string::impl_lexical::parser'))
    _roles.rule_A_NAMES(ctx, modules=('conversion::string::impl_enum::parser', 'conversion::string::impl_lexical::parser'))
    # "parsing from a character vector equals parsing from the string": the ONLY step from the input text to the character environment is
    # `input.chars().collect()` (seed c08-h trimmed the text there, so parse(" x\n") and parse_chars of the same characters differed)
    ctx.rule("S-ENV", "the enum parser's environment is exactly the characters of the input: _build_env(input) = input.chars().collect(), and every "
             "Vec<char> built from a &str in impl_enum::parser is built by _build_env")
    be = [it for p_, it in f.hir.items() if it["name"] == "_build_env" and "impl_enum::parser" in p_]
    if len(be) != 1:
        raise AnchorMissing("enum ParseState::_build_env")
    ctx.fn(be[0])
    bp = [q["name"] for q in be[0]["params"] if q.get("k") == "Binding"]
    t_ = hir.through_lets(hir.last_expr(be[0]["body"]), hir.let_env(be[0]["body"]))
    ok_env = t_["k"] == "MethodCall" and t_["method"] == "collect" and strip(t_["recv"])["k"] == "MethodCall" and strip(t_["recv"])["method"] == "chars" \
        and (strip(t_["recv"]).get("def") or "").endswith("str>::chars") and len(bp) == 1 and field_path(strip(t_["recv"])["recv"]) == (bp[0],) \
        and len(hir.find_calls(be[0]["body"])) == 2
    ctx.ob("S-ENV", "_build_env(input) = input.chars().collect()", ok_env, "the text must reach the environment unchanged (no trim / filter / map)")
    others = []
    for p_, it in sorted(f.hir.items()):
        if "impl_enum::parser" not in p_ or it.get("body") is None or it["name"] == "_build_env" or "::tests" in p_:
            continue
        for c in hir.find_calls(it["body"], "collect"):
            if "Vec<char>" in (c.get("ty") or "") and any(x.get("k") == "MethodCall" and x.get("method") == "chars" for x in hir.walk(c["recv"])):
                others.append("%s:%s" % (it["name"], c.get("line")))
    ctx.ob("S-ENV", "no other function of the enum parser turns a &str into a Vec<char>", not others, "%s" % others)
    # "same input, equal result" is decided with Term::eq, which for set-backed compounds is HashSet equality and so depends on Hash being
    # order-independent (seed c08-n: the per-element hasher hoisted out of hash_terms_unordered)
    import eqhash as _eqh
    _st, _cap = _eqh.rule_H_STORAGE(ctx)
    _classes = _eqh.rule_H_EQSHAPE(ctx, _st, _cap)
    _eqh.rule_H_ORDER(ctx)
    _eqh.rule_H_HASH(ctx, _st, _classes)
    ctx.undecided = ["nothing of substance: determinism of a state-free, deterministic function is the absence of carried state; "
                     "std/dep callees (HashSet iteration order aside, see C06/C07) are assumed deterministic"]
    ctx.assumptions = ["MIR construction and call resolution are correct", "external callees do not keep state between calls"]
    ctx.trusted = ["rustc nightly front end / MIR", "mirfacts driver", "python rule layer"]
    return ("Static effect analysis. The set of ParseState fields a parse can write is computed over the call graph from all six "
            "FromParse<(), &mut ParseState> impls; reset_to must overwrite each of them (and env/len_env) on every path with a state-independent "
            "value, and must dominate every from_parse call that reuses a state inside a loop; all other entry points get a freshly built state "
            "from the single constructor; no global or type with interior mutability exists (lazy_static cells excepted). Together this is the "
            "state clause of C08, decided for all inputs and histories because no input is involved.")


def short(p):
    return p if len(p) < 90 else "…" + p[-88:]


def independent(g, op, stores, at, depth):
    """does operand `op`, read at location `at`=(block, stmt index), avoid the old state?  arg 1 = &mut self: reading
    self.<f> is allowed only if a store to f in this function strictly precedes (dominates) the read"""
    def reset_before(fld, at):
        for bj, sj, _ in stores.get(fld, []):
            if bj == at[0]:
                if at[1] == "term" or (sj != "term" and sj < at[1]):
                    return True
            elif g.dominates(bj, at[0]):
                return True
        return False
    if op["k"] == "Const":
        return True
    if op["k"] not in ("Copy", "Move"):
        return True
    return independent_place(g, op["place"], stores, at, depth, reset_before)


def independent_place(g, place, stores, at, depth, reset_before):
    l = place["local"]
    names = [e["name"] for e in place["proj"] if e["k"] == "Field"]
    if 1 <= l <= g.body["arg_count"]:
        if l == 1:
            return bool(names) and reset_before(names[0], at)
        return True
    if depth > 8:
        return False
    ds = g.defs.get(l, [])
    if not ds:
        return False
    for bk, sk, rv in ds:
        here = (bk, sk)
        if rv["k"] == "CallResult":
            ops = rv["term"]["args"]
        else:
            ops = mir._operands(rv)
        for o in ops:
            if o["k"] in ("Copy", "Move") and not independent_place(g, o["place"], stores, here, depth + 1, reset_before):
                return False
        if rv["k"] in ("Ref", "CopyForDeref", "RawPtr", "Discriminant"):
            if not independent_place(g, rv["place"], stores, here, depth + 1, reset_before):
                return False
    return True


def payload_freeze(f, ty):
    """Freeze-ness of a lazy_static payload: a local ADT without interior-mutability field types (transitively)"""
    seen = set()

    def ok(t):
        if any(x in t for x in INTERIOR):
            return False
        a = f.adts.get(t.split("<")[0])
        if a is None or t in seen:
            return True
        seen.add(t)
        return all(ok(fd["ty"]) for v in a["variants"] for fd in v["fields"])
    return ok(ty)
