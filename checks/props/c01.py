"""C01 -- enum format -> parse round trip: structural clauses (inverse maps, unambiguous tables,
ordered-alternative conflict, number rendering)."""
import hir, maps, tables, mir
from hir import strip, field_path, callee_name, Unrecognised
from maps import table_field, tree_s, root_variant
from facts import AnchorMissing

LEVEL = "other"

ATOMS = None


def fmt_fn(ctx, name):
    it = ctx.facts.hir_fn(name, module="impl_enum::formatter")
    ctx.fn(it)
    return it


def formatter_term_map(ctx):
    """variant -> (helper name, [table fields in argument order], arm, pattern)"""
    it = fmt_fn(ctx, "_format_term")
    m = hir.top_match(it)
    out = {}
    for v, arm, pat in hir.arms_by_variant(m):
        if v == "_":
            ctx.ob("M-FMT", "_format_term no wildcard arm", False, "a wildcard arm hides new variants from the exhaustiveness check")
            continue
        b = strip(arm["body"])
        if b["k"] != "MethodCall" or field_path(b["recv"]) != ("self",):
            ctx.unrecognised("M-FMT", "_format_term %s" % v, "arm body is not a call of a self helper")
            continue
        fields = [table_field(field_path(a)) for a in b["args"]]
        out[v] = (b["method"], [f for f in fields if f], b, pat)
    return it, out


def rule_K_PUNCT_accessors(ctx):
    """the accessor half of K-PUNCT (get_punctuation / get_truth / get_stamp / get_term of the enum Sentence); also run by C16, whose
    renderer reads the punctuation through get_punctuation (seed c16-z: the Quest arm returned Question, two sentences render alike)"""
    f = ctx.facts
    ctx.rule("K-PUNCT", "Sentence::from_punctuation, get_punctuation, get_truth, get_stamp agree: punctuation P <-> sentence variant P, "
             "truth kept for Judgement/Goal only, operands in their own positions")
    sadt = f.adts["enum_narsese::sentence::Sentence"]
    sfields = {v["name"]: [x["ty"].rsplit("::", 1)[-1] for x in v["fields"]] for v in sadt["variants"]}
    for tr, nm in (("GetPunctuation", "get_punctuation"), ("GetTruth", "get_truth"), ("GetStamp", "get_stamp"), ("GetTerm", "get_term")):
        its = f.select(f.hir, nm, self_ty="enum_narsese::sentence::Sentence", trait=tr)
        if len(its) != 1:
            raise AnchorMissing("%s for Sentence" % nm)
        ctx.fn(its[0])
        m4 = hir.top_match(its[0])
        for v, arm, pat in hir.arms_by_variant(m4):
            b = strip(arm["body"])
            binds = hir.pat_bindings(pat)
            if nm == "get_punctuation":
                e = strip(b["e"]) if b["k"] == "AddrOf" else b
                got = hir.variant_of(e["path"]) if e["k"] == "Path" else None
                ctx.ob("K-PUNCT", "get_punctuation %s" % v, got == v, "returns %s" % got)
            else:
                tyname = {"get_truth": "Truth", "get_stamp": "Stamp", "get_term": "Term"}[nm]
                pos = sfields[v].index(tyname) if tyname in sfields[v] else None
                if nm == "get_truth":
                    if pos is None:
                        ok = b["k"] == "Path" and hir.variant_of(b["path"]) == "None"
                    else:
                        ok = b["k"] == "Call" and callee_name(b) == "Some" and field_path(b["args"][0]) == (binds[pos],) if len(binds) > pos else False
                else:
                    ok = pos is not None and len(binds) > pos and field_path(b) == (binds[pos],)
                ctx.ob("K-PUNCT", "%s %s" % (nm, v), ok, "returns %s; bindings %s" % (hirpp_s(b), binds))


def a_count_parser(ctx):
    """enum parser: the number of parsed floats selects the constructor of the same arity, floats in order"""
    ctx.rule("A-COUNT", "the number of parsed floats selects the constructor of the same arity, with the floats in order; the formatter "
             "writes exactly the variant's fields in order")
    for fname, adtp, names in (("consume_truth", "enum_narsese::sentence::truth::Truth", ["new_empty", "new_single", "new_double"]),
                               ("consume_budget", "enum_narsese::task::budget::Budget", ["new_empty", "new_single", "new_double", "new_triple"])):
        it2 = maps.enum_parser_fn(ctx, fname)
        # names of the float bindings, in order, and of the count, from the destructuring `let ([a, b, ..], count) = parse_separated_floats(..)?`
        lets = [s for s in hir.walk(it2["body"]) if s.get("k") == "Let" and s["pat"]["k"] == "Tuple" and len(s["pat"]["pats"]) == 2
                and s.get("init") is not None and hir.find_calls(s["init"], "parse_separated_floats")]
        order, count_name = [], None
        if lets:
            sl, cn = lets[0]["pat"]["pats"]
            if sl["k"] == "Slice":
                order = [x.get("name") for x in sl["before"]]
            elif sl["k"] == "Binding":
                # `let (floats, num) = ..; .. let [a, b, c] = floats;` (the array handed on to a helper and destructured there)
                for s2 in hir.walk(it2["body"]):
                    if s2.get("k") == "Let" and s2["pat"]["k"] == "Slice" and s2.get("init") is not None \
                            and field_path(hir.through_lets(s2["init"], hir.let_env(it2["body"]))) == (sl["name"],):
                        order = [x.get("name") for x in s2["pat"]["before"]]
            if cn["k"] == "Binding":
                count_name = cn["name"]
        env_ = hir.let_env(it2["body"])          # an extracted helper `x_from_floats([a, b, c], num)` is inlined: its parameters are lets
        ms = [n for n in hir.walk(it2["body"]) if n.get("k") == "Match" and count_name and field_path(hir.through_lets(n["scrut"], env_)) == (count_name,)]
        if len(ms) != 1:
            ctx.unrecognised("A-COUNT", fname, "no `match <count>` on the count returned by parse_separated_floats found")
            continue
        seen = {}
        for v, arm, pat in hir.arms_by_variant(ms[0]):
            b = strip(arm["body"])
            nm = callee_name(b) if b["k"] in ("Call", "MethodCall") else None
            args = [field_path(hir.through_lets(a, env_)) for a in (b.get("args") or [])]
            seen[v] = (nm, args)
        for k, want in enumerate(names):
            key = k if k in seen else "_"
            nm, args = seen.get(key, (None, None))
            if k == len(names) - 1 and k not in seen:
                key = "_"
                nm, args = seen.get("_", (None, None))
            ok = nm == want and args == [(x,) for x in order[:k]]
            ctx.ob("A-COUNT", "%s count %d -> %s" % (fname, k, want), ok, "count %s selects %s(%s); float bindings %s" % (key, nm, args, order))


def run(ctx):
    f = ctx.facts
    T = tables.Tables(ctx)
    ev, ctors = maps.rule_M_CTOR(ctx)
    P = maps.ParserMaps(ctx, ev)
    variants = maps.term_variants(f)
    cat = {}
    adt = f.adts[maps.TERM_ADT]
    storage = {v["name"]: [x["ty"] for x in v["fields"]] for v in adt["variants"]}

    # ---- clause 1: inverse maps ------------------------------------------------
    ctx.rule("M-FMT∘M-PARSE", "for every Term variant V the formatter writes table field F (via the helper of V's kind) and the enum "
             "parser's first-match chain maps F back to a constructor whose root variant is V; same for the 4 punctuations and 5 stamp kinds")
    it, fm = formatter_term_map(ctx)
    ctx.floor("_format_term arms", len(fm), 30)
    for v in variants:
        if v not in fm:
            ctx.ob("M-FMT∘M-PARSE", "%s formatted" % v, False, "no arm in _format_term")
            continue
        helper, fields, call, pat = fm[v]
        st = storage[v]
        # helper kind by storage
        if not st or st == ["std::string::String"] or st == ["usize"]:
            want_helper, nfields = "format_atom", 1
        elif any("HashSet" in t or "Vec<" in t for t in st) and v.startswith("Set"):
            want_helper, nfields = "format_set", 2
        elif v.startswith("Image"):
            want_helper, nfields = "format_image", 1
        elif len(st) == 2 and all("Box<" in t for t in st) and not v.startswith("Difference"):
            want_helper, nfields = "format_statement", 1
        else:
            want_helper, nfields = "format_compound", 1
        ctx.ob("M-FMT", "%s helper" % v, helper == want_helper and len(fields) == nfields,
               "uses %s with fields %s, expected %s" % (helper, fields, want_helper))
        if not fields:
            continue
        if want_helper == "format_set":
            base = fields[0][:-2]
            ok = fields == [base + ".0", base + ".1"]
            ctx.ob("M-FMT", "%s brackets in order" % v, ok, "bracket arguments %s" % fields)
            key = base
        else:
            key = fields[0]
        back = P.term.get(key)
        ctx.ob("M-FMT∘M-PARSE", "%s via %s" % (v, key), back is not None and root_variant(back) == v,
               "formatter writes %s; parser maps it to %s" % (key, tree_s(back) if back else None))
        ctx.sample({"rule": "M-FMT∘M-PARSE", "variant": v, "field": key, "parser_ctor": tree_s(back) if back else None})
        # operand wiring
        binds = hir.pat_bindings(pat)
        args = call["args"]
        if want_helper == "format_statement":
            a = [field_path(x) for x in args]
            ok = len(binds) == 2 and len(a) >= 3 and a[1] == (binds[0],) and a[2] == (binds[1],)
            ctx.ob("M-FMT", "%s operands in order" % v, ok, "pattern binds %s, helper receives %s" % (binds, a[1:3]))
        if want_helper == "format_image":
            a = [field_path(x) for x in args]
            ok = len(binds) >= 1 and binds[0] is not None and len(a) >= 2 and a[1] == (binds[0],)
            ctx.ob("I-INDEX-FMT", "%s index passed unchanged" % v, ok,
                   "pattern binds %s, format_image receives %s as index" % (binds, a[1] if len(a) > 1 else None))
    # format_image must feed the index unchanged into ImageIterator::new
    fi = fmt_fn(ctx, "format_image")
    pn = [p.get("name") for p in fi["params"]]
    news = [c for c in hir.find_calls(fi["body"], "new") if "ImageIterator" in (hir.callee(c) or "")]
    ok = len(news) == 1 and len(pn) >= 3 and field_path(news[0]["args"][1]) == (pn[2],)
    ctx.ob("I-INDEX-FMT", "format_image -> ImageIterator::new(components, index)", ok,
           "index parameter %s must reach ImageIterator::new unchanged" % (pn[2] if len(pn) > 2 else None))

    # punctuation
    pit = fmt_fn(ctx, "_format_punctuation")
    pm = None
    for n in hir.walk(pit["body"]):
        if n.get("k") == "Match":
            pm = n
            break
    if pm is None:
        raise AnchorMissing("match in _format_punctuation")
    fpun = {}
    for v, arm, pat in hir.arms_by_variant(pm):
        fpun[v] = table_field(field_path(arm["body"]))
    pvars = [v["name"] for v in f.adts["enum_narsese::sentence::punctuation::Punctuation"]["variants"]]
    ctx.floor("punctuations", len(pvars), 4)
    for v in pvars:
        fld = fpun.get(v)
        ctx.ob("M-FMT∘M-PARSE", "punctuation %s via %s" % (v, fld), fld is not None and P.punct.get(fld) == v,
               "formatter writes %s; parser maps it to %s" % (fld, P.punct.get(fld)))
    # stamp
    sit = fmt_fn(ctx, "_format_stamp")
    sm = [n for n in hir.walk(sit["body"]) if n.get("k") == "Match" and "Stamp" in (n["scrut"].get("ty") or "")]
    if len(sm) != 1:
        raise AnchorMissing("match over Stamp in _format_stamp")
    svars = [v["name"] for v in f.adts["enum_narsese::sentence::stamp::Stamp"]["variants"]]
    ctx.floor("stamp kinds", len(svars), 5)
    fst = {}
    for v, arm, pat in hir.arms_by_variant(sm[0]):
        pushes = [table_field(field_path(c["args"][0])) for c in hir.find_calls(arm["body"], "push_str")]
        fst[v] = [p for p in pushes if p]
        if v == "Fixed":
            # number rendered right after the keyword through Display
            strs = hir.find_calls(arm["body"], "to_string")
            binds = hir.pat_bindings(pat)
            ok = len(strs) == 1 and strs[0].get("def") == "std::string::ToString::to_string" and field_path(strs[0]["recv"]) == (binds[0],)
            ctx.ob("F-DISPLAY", "fixed stamp time rendered with Display", ok, "expected `<time>.to_string()` of the variant's own field")
    for v in svars:
        flds = fst.get(v)
        if v == "Eternal":
            ctx.ob("M-FMT∘M-PARSE", "stamp Eternal writes nothing", flds == [] , "writes %s" % flds)
            continue
        ok = flds is not None and len(flds) == 1 and P.stamp.get(flds[0]) == v
        ctx.ob("M-FMT∘M-PARSE", "stamp %s via %s" % (v, flds), ok, "parser maps it to %s" % (P.stamp.get(flds[0]) if flds else None))
    # the eternal early return + both brackets around the kind
    pushes = [table_field(field_path(c["args"][0])) for c in hir.find_calls(sit["body"], "push_str")]
    ctx.ob("M-FMT", "_format_stamp brackets", pushes[:1] == ["sentence.stamp_brackets.0"] and pushes[-1:] == ["sentence.stamp_brackets.1"],
           "push order %s" % pushes)
    # parser default for absent stamp/truth = what the formatter omits
    fs = maps.enum_parser_fn(ctx, "form_sentence")
    uo = hir.find_calls(fs["body"], "unwrap_or")
    dflt = sorted(hirpp_s(c["args"][0]) for c in uo)
    ctx.ob("M-FMT∘M-PARSE", "absent stamp defaults to Eternal, absent truth to empty",
           any("Eternal" in d for d in dflt) and any("new_empty" in d for d in dflt), "defaults: %s" % dflt)

    # ---- A-COUNT -------------------------------------------------------------
    a_count_parser(ctx)
    for fname, adtp in (("_format_truth", "Truth"), ("_format_budget", "Budget")):
        it2 = fmt_fn(ctx, fname)
        m2 = hir.top_match(it2)
        for v, arm, pat in hir.arms_by_variant(m2):
            binds = hir.pat_bindings(pat)
            arrs = [x for x in hir.walk(arm["body"]) if x.get("k") == "Array"]
            elems = [field_path(x) for x in arrs[0]["elems"]] if arrs else None
            if fname == "_format_truth" and v == "Empty":
                ctx.ob("A-COUNT", "%s %s writes nothing" % (fname, v), elems is None and not hir.find_calls(arm["body"]), "empty truth must be omitted")
                continue
            ok = elems is not None and elems == [(b,) for b in binds]
            ctx.ob("A-COUNT", "%s %s writes its %d fields in order" % (fname, v, len(binds)), ok, "array %s vs bindings %s" % (elems, binds))

    # ---- K-PUNCT ---------------------------------------------------------------
    ctx.rule("K-PUNCT", "Sentence::from_punctuation, get_punctuation, get_truth, get_stamp agree: punctuation P <-> sentence variant P, "
             "truth kept for Judgement/Goal only, operands in their own positions")
    fp = f.hir_fn("from_punctuation", module="enum_narsese::sentence")
    ctx.fn(fp)
    m3 = hir.top_match(fp)
    sadt = f.adts["enum_narsese::sentence::Sentence"]
    sfields = {v["name"]: [x["ty"].rsplit("::", 1)[-1] for x in v["fields"]] for v in sadt["variants"]}
    pnames = [p.get("name") for p in fp["params"]]
    for v, arm, pat in hir.arms_by_variant(m3):
        b = strip(arm["body"])
        rv = hir.variant_of(strip(b["f"])["path"]) if b["k"] == "Call" and strip(b["f"])["k"] == "Path" else None
        args = [field_path(a) for a in b.get("args", [])]
        want = [(x.lower(),) for x in sfields.get(v, [])]
        ctx.ob("K-PUNCT", "from_punctuation %s" % v, rv == v and args == want, "builds %s%s, expected %s%s" % (rv, args, v, want))
    rule_K_PUNCT_accessors(ctx)

    maps.rule_K_COPULAS(ctx)
    # ---- clause 2: tables unambiguous ---------------------------------------------
    tables.rule_T_DISTINCT(ctx, T, which=("enum",))
    ctx.rule("T-SHADOW", "in every first-match chain of the enum parser and every table: a keyword that is a proper prefix of another "
             "keyword of the same chain is tested after it")
    for chain, order in sorted(P.order.items()):
        for name in T.names:
            kws = []
            for fld in order:
                if fld.startswith("local:"):
                    continue
                kws.append((fld, lookup(T.enum[name], fld)))
            bad = tables.shadow_violations(kws)
            ctx.ob("T-SHADOW", "%s chain %s" % (name, chain), not bad, "shadowed: %s" % bad)

    tables.rule_T_IDENT(ctx, T)
    tables.rule_T_JUXTAPOSE(ctx, T, models=("enum",), only_written=tables.emitted_copula_fields(ctx))
    tables.rule_T_BUDGET_IDENT(ctx, T, models=("enum",))
    # ---- clause 3: ordered-alternative conflict --------------------------------------
    x_conflict(ctx, T)

    # ---- clause 4: number rendering ---------------------------------------------------
    ctx.rule("F-DISPLAY", "floats and the fixed stamp are rendered with Display (to_string) and re-read with str::parse; the float "
             "scanner's char class covers Display's output for finite values in [0,1]")
    ff = fmt_fn(ctx, "format_floats")
    strs = hir.find_calls(ff["body"], "to_string")
    fmts = [c for c in hir.find_calls(ff["body"]) if (hir.callee(c) or "").startswith("std::fmt::")]
    ok = len(strs) == 1 and strs[0].get("def") == "std::string::ToString::to_string" and "f64" in (strs[0]["recv"].get("ty") or "") and not fmts
    ctx.ob("F-DISPLAY", "format_floats renders via f64 Display", ok, "to_string calls: %d, fmt calls: %d" % (len(strs), len(fmts)))
    psf = maps.enum_parser_fn(ctx, "parse_separated_floats")
    parses = hir.find_calls(psf["body"], "parse")
    ok = parses and all((c.get("def") or "").endswith("str>::parse") and "f64" in (c.get("ty") or "") for c in parses)
    ctx.ob("F-DISPLAY", "parse_separated_floats re-reads via str::parse::<f64>", bool(ok), "%s" % [(c.get("def"), c.get("ty")) for c in parses])
    # scanner char class
    atoms = set()
    for n in hir.walk(psf["body"]):
        if n.get("k") == "Match":
            for a in n["arms"]:
                for p in hir.flatten_or(a["pat"]):
                    if p["k"] == "Expr" and p["expr"]["k"] == "Lit" and p["expr"]["lit"]["lit"] == "char":
                        atoms.add(("lit", p["expr"]["lit"]["v"]))
                    if p["k"] == "Range" and p["lo"] and p["hi"]:
                        hi_ = p["hi"]["lit"]["v"]
                        if not p.get("inclusive"):
                            hi_ = chr(ord(hi_) - 1) if isinstance(hi_, str) and len(hi_) == 1 else hi_     # `'0'..'9'` stops at '8'
                        atoms.add(("range", p["lo"]["lit"]["v"], hi_))
    for c in "0123456789.":
        ctx.ob("F-DISPLAY", "float scanner accepts %r" % c, tables.pred_accepts(frozenset(atoms), c) is True, "scanner atoms %s" % sorted(atoms))
    pi = maps.enum_parser_fn(ctx, "parse_isize")
    parses = hir.find_calls(pi["body"], "parse")
    ok = parses and all((c.get("def") or "").endswith("str>::parse") and "isize" in (c.get("ty") or "") for c in parses)
    ctx.ob("F-DISPLAY", "parse_isize re-reads via str::parse::<isize>", bool(ok), "%s" % [(c.get("def"), c.get("ty")) for c in parses])
    # char class of the integer scanner covers what Display for isize emits: digits and '-'
    digit = any(c.get("def", "").endswith("is_ascii_digit") for c in hir.find_calls(pi["body"], "is_ascii_digit"))
    lits = set()
    for n in hir.walk(pi["body"]):
        if n.get("k") == "Binary" and n["op"] == "==":
            for side in (n["l"], n["r"]):
                sd = strip(side)
                if sd["k"] == "Lit" and sd["lit"]["lit"] == "char":
                    lits.add(sd["lit"]["v"])
    ctx.ob("F-DISPLAY", "integer scanner accepts digits and '-'", digit and "-" in lits, "digit test: %s, char literals: %s" % (digit, sorted(lits)))

    # ---- cross-listed structural conditions (each is a necessary condition of this property as well; round-2 seeds showed changes
    # to them being caught only by the check of a neighbouring property)
    import c09, c10
    c10.rule_I_INDEX(ctx, ev, ctors)          # image placeholder position and component order (enum parser, fold)
    c10.rule_N_INTERVAL(ctx, maps.FoldMaps(ctx, ev))   # interval value, placeholder ignores what follows its prefix
    maps.rule_U_CHARS(ctx)                    # borders are char counts
    c09.rule_W_ENUM(ctx)                      # the spaces the formatter writes are skipped at every token boundary
    # the enum name scanner stops where a copula starts; a recogniser that answers true for a truncated copula cuts a bare atom at the end of the formatter output (D9)
    import fullmatch
    fullmatch.rule_P_FULLMATCH(ctx)
    # component order is preserved end to end (formatter, templates, parsers, fold, accessors)
    import maps as _maps
    _maps.rule_O_ORDER(ctx)
    # parser state: any field beyond the reviewed ones is unmodelled state (seed c06-e: an atom cache keyed by the bare name; c09-f: a stale
    # copula index surviving reset_to)
    import c08 as _c08
    _c08.rule_S_FIELDS(ctx)
    # the parsers store names and components through the two term mutators and rely on them storing verbatim / completely
    # (seeds c12-e: push_components dropped placeholders, c12-f: set_atom_name trimmed underscores)
    import c17 as _c17
    _c17.rule_K_MUTATOR(ctx)
    import tables as _t2
    _t2.rule_T_IDENT_CLASS(ctx, _t2.Tables(ctx), models=("enum",))
    # the enum parser's productions: which keyword is tested / skipped / handed to which sub-parser, which slot is filled (P-SKELETON), in terms of
    # cursor primitives with exactly their reviewed meaning (P-PRIM)
    import pskel as _pskel
    _pskel.rule_P_PRIM(ctx)
    _pskel.rule_P_SKELETON(ctx)
    # naming-law lints over the modules this property lives in (sibling slips: truth<->budget, stamp<->punctuation, left<->right, swapped arguments)
    import roles as _roles
    _roles.rule_R_ROLE(ctx, modules=('conversion::string::impl_enum', 'conversion::string::common', 'enum_narsese::'))
    _roles.rule_A_NAMES(ctx, modules=('conversion::string::impl_enum', 'conversion::string::common', 'enum_narsese::'))
    # every formatter function against its reviewed emission skeleton
    import emit as _emit
    _emit.rule_F_SKELETON_ALL(ctx)
    import lskel as _lskel
    _lskel.rule_L_SKELETON(ctx, which=('term',), floor=10)
    import maps as _mb
    _mb.rule_M_BINFILL(ctx)
    import tables as _t3
    _t3.rule_T_SPACE(ctx, _t3.Tables(ctx), models=("enum",))
    # values are compared with `==`, and set-like components live in hash sets: equality of nested unordered compounds needs the semantic
    # Eq (H-EQSHAPE) AND a hash that agrees with it and does not depend on enumeration order (H-ORDER / H-HASH) -- seeds c01-h, c17-h
    import eqhash as _eqh
    _st, _cap = _eqh.rule_H_STORAGE(ctx)
    _classes = _eqh.rule_H_EQSHAPE(ctx, _st, _cap)
    _eqh.rule_H_ORDER(ctx)
    _eqh.rule_H_HASH(ctx, _st, _classes)
    # format_image re-inserts the placeholder through ImageIterator (seed c01-n: a fused next() drops a trailing placeholder)
    import c14 as _c14
    _c14.rule_K_IMAGEITER(ctx)
    ctx.undecided = ["that parsed and original values compare equal for all values (depends on C06 and on run-time data)",
                     "nesting-dependent ambiguity; name well-formedness side conditions"]
    ctx.assumptions = ["f64 Display emits only digits and '.' for finite values in [0,1] (std guarantee)",
                       "HIR name resolution and types are correct"]
    ctx.trusted = ["rustc nightly front end", "mirfacts driver", "python rule layer"]
    return ("Static check of the structural necessary conditions of the enum format->parse round trip: formatter and parser keyword maps "
            "are inverse on all 30 term variants, 4 punctuations, 5 stamp kinds and all truth/budget arities; the three enum tables are "
            "unambiguous under the parser's first-match order; an earlier item alternative whose opening keyword can also start a later "
            "alternative is strict; numbers go through Display/str::parse. Value equality for all values is not decided.")


def hirpp_s(e):
    import hirpp
    return hirpp.expr(e)


def lookup(table, fld):
    cur = table
    for part in fld.split("."):
        if isinstance(cur, tuple):
            cur = cur[int(part)]
        else:
            cur = cur[part]
    return cur


def x_conflict(ctx, T):
    ctx.rule("X-CONFLICT", "consume_one offers the input to budget, term, punctuation, stamp, truth in order and falls through only on "
             "Err. If an earlier bracketed-number alternative's opening keyword can also start a later alternative (shares a prefix with "
             "an atom prefix, or starts with an identifier char) in some table, that alternative must be strict: its slot is filled only "
             "on paths dominated by a successful match of its closing bracket")
    f = ctx.facts
    co = maps.enum_parser_fn(ctx, "consume_one")
    chains = [n for n in hir.walk(co["body"]) if n.get("k") == "If"]
    if not chains:
        raise AnchorMissing("alternative chain in consume_one")
    links, els = hir.if_chain(chains[0])
    alts = []
    for cond, br in links:
        cj = hir.conjuncts(cond)
        guard_field, slot, consumer = None, None, None
        for c in cj:
            c = strip(c)
            if c["k"] == "MethodCall" and c["method"] == "starts_with":
                guard_field = table_field(field_path(c["args"][0]))
            if c["k"] == "MethodCall" and c["method"] == "is_none":
                slot = (field_path(c["recv"]) or ("?",))[-1]
            if c["k"] == "Block":
                for x in hir.find_calls(c):
                    nm = callee_name(x)
                    if nm and nm.startswith("consume_"):
                        consumer = nm
        alts.append((guard_field, slot, consumer))
    order = [a for a in alts if a[2]]
    ctx.extra["consume_one_alternatives"] = [list(a) for a in order]
    ctx.floor("consume_one alternatives", len(order), 5)
    names = [a[2] for a in order]
    # which alternatives come later than X
    for i, (guard, slot, consumer) in enumerate(order):
        if guard is None or not guard.endswith("_brackets.0") or slot not in ("budget", "truth"):
            continue
        later = order[i + 1:]
        later_term = any(a[2] == "consume_term" for a in later)
        conflicts = []
        for name in T.names:
            kw = lookup(T.enum[name], guard)
            e = T.e_roles(name)
            if later_term:
                for pf, pk in e["prefix"].items():
                    if pk and (pk.startswith(kw) or kw.startswith(pk)):
                        conflicts.append("%s: %r vs %s %r" % (name, kw, pf, pk))
                pe = tables.char_pred(f, e["fn"]["is_valid_atom_name"])
                if kw and tables.pred_accepts(pe, kw[0]) is not False:
                    conflicts.append("%s: %r starts with an identifier char" % (name, kw))
                for grp in ("set_brackets",):
                    for bf, bk in e[grp].items():
                        if bk[0].startswith(kw) or kw.startswith(bk[0]):
                            conflicts.append("%s: %r vs %s" % (name, kw, bf))
        if not conflicts:
            ctx.ob("X-CONFLICT", "%s needs no strictness" % consumer, True)
            continue
        # strictness: in MIR, the insert into the slot is dominated by the true edge of starts_with(closing bracket)
        body = f.mir_fn(consumer, module="impl_enum::parser")
        g = mir.cfg(body)
        closing = guard[:-2] + ".1"
        fills = []
        for bi, t in g.calls("insert"):
            r, p = g.resolve_operand(t["args"][0])
            if p and p[-1] == slot:
                fills.append(bi)
        if not fills:
            ctx.unrecognised("X-CONFLICT", consumer, "no insert into the %s slot found" % slot)
            continue
        tests = []
        for bi, t in g.calls("starts_with"):
            r, p = g.resolve_operand(t["args"][1])
            if ".".join(p[-3:]) == closing or ".".join(p[-3:]).endswith(closing):
                br = g.bool_branch(bi)
                if br:
                    tests.append((bi, br[0]))
        ok = bool(tests) and all(any(g.dominates(tt, fb) and tt not in g.dom[ts] for ts, tt in tests) for fb in fills)
        ctx.ob("X-CONFLICT", "%s strict (closing bracket matched before the slot is filled)" % consumer, ok,
               "opening keyword conflicts with a later alternative [%s] but the %s slot is filled without a dominating "
               "`starts_with(%s)` success" % ("; ".join(conflicts[:3]), slot, closing),
               "%s:%s" % (body["span"]["file"], body["span"]["line"]))
