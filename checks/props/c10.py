"""C10 -- derived copulas and surface sugar mean what the documentation says."""
import hir, maps, mir
from hir import strip, field_path, callee_name
from maps import tree_s, root_variant, simplify
from facts import AnchorMissing

LEVEL = "other"

# independent statement of intent (from the documentation / property text), as constructor trees over
# operands 0 = subject/antecedent, 1 = predicate/consequent
S, P = ("operand", 0), ("operand", 1)


def SET(kind, x):
    return ("ctor", kind, [("coll", "set", ("list", [x]))])


SPEC = {
    "new_instance": ("ctor", "Inheritance", [SET("SetExtension", S), P]),
    "new_property": ("ctor", "Inheritance", [S, SET("SetIntension", P)]),
    "new_instance_property": ("ctor", "Inheritance", [SET("SetExtension", S), SET("SetIntension", P)]),
    "new_equivalence_retrospective": ("ctor", "EquivalencePredictive", [P, S]),
}
FIELD_OF = {
    "statement.copula_instance": "new_instance",
    "statement.copula_property": "new_property",
    "statement.copula_instance_property": "new_instance_property",
    "statement.copula_equivalence_retrospective": "new_equivalence_retrospective",
}


def to_operands(t, names):
    if t[0] == "ctor":
        return ("ctor", t[1], [to_operands(a, names) for a in t[2]])
    if t[0] == "coll":
        return ("coll", t[1], to_operands(t[2], names))
    if t[0] == "list":
        return ("list", [to_operands(a, names) for a in t[1]])
    if t[0] == "try":
        return to_operands(t[1], names)
    k = tree_s(t)
    if k in names:
        return ("operand", names[k])
    if "*" in names and t[0] not in ("param",):
        return ("operand", names["*"])
    return t


def rule_I_INDEX(ctx, ev, ctors):
    f = ctx.facts
    # ---- I-INDEX ------------------------------------------------------------------
    ctx.rule("I-INDEX", "the image index is the position of the FIRST placeholder among the written components, the remaining "
             "components keep their order, and the value reaches the Image variant's index field without arithmetic")
    # (a) enum parser: position(== Placeholder) then remove(index) on the same vector, index returned unchanged
    pti = maps.enum_parser_fn(ctx, "parse_terms_with_image")
    pti_vec = ([q["name"] for q in pti["params"] if q.get("k") == "Binding" and q["name"] != "self"] + [None])[0]      # the vector parameter, by position
    pos = hir.find_calls(pti["body"], "position") + hir.find_calls(pti["body"], "rposition") + hir.find_calls(pti["body"], "find")
    ok = len(pos) == 1 and pos[0].get("def") == "std::iter::Iterator::position"
    recv_ok = False
    clos_ok = False
    if ok:
        r = strip(pos[0]["recv"])
        recv_ok = r["k"] == "MethodCall" and r["method"] == "iter" and field_path(r["recv"]) == (pti_vec,)
        c = strip(pos[0]["args"][0])
        if c["k"] == "Closure":
            b = strip(c["body"])
            if b["k"] == "Binary" and b["op"] == "==":
                sides = [strip(b["l"]), strip(b["r"])]
                vs = [s for s in sides if s["k"] == "Path" and s["path"].get("defkind", "").startswith("Ctor") or (s["k"] == "Path" and hir.variant_of(s["path"]) == "Placeholder")]
                clos_ok = any(hir.variant_of(s["path"]) == "Placeholder" for s in sides if s["k"] == "Path")
    ctx.ob("I-INDEX", "parse_terms_with_image: Iterator::position(== Placeholder) over terms.iter()", ok and recv_ok and clos_ok,
           "index must be the FIRST position whose element equals Placeholder (callee %s)" % (pos[0].get("def") if pos else None))
    # the `Some(index)` alternative, written as a match arm or as `if let Some(index) = ..`
    some_alts = []
    for n in hir.walk(pti["body"]):
        if n.get("k") == "Match" and "Desugar" not in n.get("source", ""):
            try:
                some_alts += [(pat, arm["body"]) for v, arm, pat in hir.arms_by_variant(n) if v == "Some"]
            except hir.Unrecognised:
                pass
        elif n.get("k") == "If" and strip(n["cond"]).get("k") == "LetExpr":
            q = strip(n["cond"])["pat"]
            try:
                if hir.pat_variants(q) == {"Some"}:
                    some_alts.append((q, n["then"]))
            except hir.Unrecognised:
                pass
    # ... or as `let Some(index) = .. else { return err };` followed by the rest of the function
    for n in hir.walk(pti["body"]):
        if n.get("k") == "Block":
            for si, st_ in enumerate(n["stmts"]):
                if st_.get("k") == "Let" and st_.get("els") and st_.get("init") is not None:
                    try:
                        if hir.pat_variants(st_["pat"]) == {"Some"}:
                            some_alts.append((st_["pat"], {"k": "Block", "stmts": n["stmts"][si + 1:], "expr": n.get("expr")}))
                    except hir.Unrecognised:
                        pass
    ok = False
    if len(some_alts) == 1:
        pat, body_ = some_alts[0]
        b = hir.pat_bindings(pat)
        if not b and pat.get("fields"):
            b = [fd["pat"].get("name") for fd in pat["fields"]]
        rem = hir.find_calls(body_, "remove")
        tail = hir.last_expr(body_)
        ok = (len(b) == 1 and len(rem) == 1 and field_path(rem[0]["recv"]) == (pti_vec,) and field_path(rem[0]["args"][0]) == (b[0],)
              and tail["k"] == "Call" and field_path(tail["args"][0]) == (b[0],))
    ctx.ob("I-INDEX", "parse_terms_with_image: remove(index) on the same vector; index returned unchanged", ok, "")
    # (b) parse_compound: *index = i (pure flow from parse_terms_with_image), vec.extend(terms)
    pc = f.mir_fn("parse_compound", module="impl_enum::parser")
    g = mir.cfg(pc)
    stores = []
    for bi in sorted(g.reach):
        for s in pc["blocks"][bi]["stmts"]:
            if s["k"] == "Assign":
                pl = s["place"]
                if pl["proj"] and all(e["k"] == "Deref" for e in pl["proj"]):
                    ds = g.defs.get(pl["local"], [])
                    def is_idx_ref(rv):
                        if rv["k"] != "Ref" or not rv["mut"]:
                            return False
                        pr = rv["place"]["proj"]
                        return (len(pr) >= 2 and pr[-2]["k"] == "Downcast" and pr[-2]["variant"].startswith("Image")
                                and pr[-1]["k"] == "Field" and pr[-1]["idx"] == 0)
                    if ds and all(is_idx_ref(d[2]) for d in ds):
                        stores.append((bi, s))
    ok = bool(stores)
    for bi, s in stores:
        rv = s["rv"]
        pure = rv["k"] == "Use" and rv["op"]["k"] in ("Copy", "Move")
        src = g.resolve_operand(rv["op"]) if pure else None
        # source must be the Continue payload of `parse_terms_with_image(..)?` with no arithmetic in between
        okk = False
        if src and src[0][0] == "call" and mir.callee_name(src[0][1]) == "branch":
            inner = g.resolve_operand(src[0][1]["args"][0])
            okk = inner[0][0] == "call" and mir.callee_name(inner[0][1]) == "parse_terms_with_image"
        ok = ok and okk
    ctx.ob("I-INDEX", "parse_compound: image index field := result of parse_terms_with_image, no arithmetic", ok,
           "stores into Image*.0: %d" % len(stores))
    # (c) to_terms_with_image: enumerate counter at the first placeholder; everything else pushed in order
    tti = f.hir_fn("to_terms_with_image", module="enum_narsese::term")
    ctx.fn(tti)
    ok = tti_shape(tti)
    ctx.ob("I-INDEX", "to_terms_with_image: index = enumerate counter at the first placeholder; other items pushed in order", bool(ok), "")
    # (d) to_image_*_with_placeholder -> new_image_*(index, vec) with the vec filled by to_terms_with_image
    for nm, v in (("to_image_extension_with_placeholder", "ImageExtension"), ("to_image_intension_with_placeholder", "ImageIntension")):
        path, t, n = ctors[nm]
        t = simplify(t)
        ok = root_variant(t) == v
        if ok:
            idx = t[2][0]
            while idx[0] == "try":
                idx = idx[1]
            ok = idx[0] in ("call", "opaque") and idx[1].endswith("to_terms_with_image")
        ctx.ob("I-INDEX", "%s: index = to_terms_with_image(..)? passed unchanged to new_%s" % (nm, maps.snake(v)), ok, "evaluates to %s" % tree_s(t))
    # (e) who may write the index: aggregates of Image* only in new_image_*; stores into field 0 only in parse_compound
    writers = set()
    for path, b in f.mir.items():
        for bl in b["blocks"]:
            for s in bl["stmts"]:
                if s["k"] != "Assign":
                    continue
                rv = s["rv"]
                if rv["k"] == "Aggregate" and rv.get("agg") == "Adt" and rv["adt"] == maps.TERM_ADT and rv["variant"].startswith("Image"):
                    writers.add((b["name"], "aggregate"))
                if rv["k"] == "Ref" and rv["mut"]:
                    pr = rv["place"]["proj"]
                    if len(pr) >= 2 and pr[-2]["k"] == "Downcast" and pr[-2]["variant"].startswith("Image") and pr[-1]["k"] == "Field" and pr[-1]["idx"] == 0:
                        writers.add((b["name"], "mut-borrow"))
                pl = s["place"]["proj"]
                if len(pl) >= 2 and pl[-2]["k"] == "Downcast" and pl[-2]["variant"].startswith("Image") and pl[-1]["k"] == "Field" and pl[-1]["idx"] == 0:
                    writers.add((b["name"], "store"))
    allowed = {("new_image_extension", "aggregate"), ("new_image_intension", "aggregate"), ("parse_compound", "mut-borrow"),
               ("clone", "aggregate")}
    extra = sorted(w for w in writers if w not in allowed)
    ctx.ob("I-INDEX", "who-may-write the image index", not extra, "unexpected writers of Image*.0: %s" % extra)
    ctx.extra["image_index_writers"] = sorted(map(list, writers))
    # new_image_*: index parameter stored unchanged, test_term_vec_for_image called with it
    for nm in ("new_image_extension", "new_image_intension"):
        path, t, n = ctors[nm]
        eff = ev.effects.get("enum_narsese::term::impls::new_term_vec_for_image", [])
        tested = any((c or "").endswith("test_term_vec_for_image") and a and a[0] == ("param", 0) for c, a in eff)
        ok = t[0] == "ctor" and t[2][0] == ("param", 0)
        ctx.ob("I-INDEX", "%s stores its index parameter unchanged and range-tests it" % nm, ok and tested, "tree %s; tested=%s" % (tree_s(t), tested))



def rule_N_INTERVAL(ctx, F_):
    f = ctx.facts
    # ---- interval / placeholder -------------------------------------------------------
    ctx.rule("N-INTERVAL", "an interval atom denotes the decimal value of its name: set_atom_name on Interval and fold_atom's interval arm "
             "both use str::parse::<usize> (no radix, no signed parse); the placeholder arms ignore the name")
    san = f.hir_fn("set_atom_name", module="enum_narsese::term")
    ctx.fn(san)
    m = hir.top_match(san)
    for v, arm, pat in hir.arms_by_variant(m):
        if v == "Interval":
            ps = hir.find_calls(arm["body"], "parse")
            san_p = [q["name"] for q in san["params"] if q.get("k") == "Binding" and q["name"] != "self"]
            ok = len(ps) == 1 and (ps[0].get("def") or "").endswith("str>::parse") and len(san_p) == 1 and field_path(ps[0]["recv"]) == (san_p[0],) \
                and "usize" in (ps[0].get("ty") or "")
            ctx.ob("N-INTERVAL", "set_atom_name Interval = new_name.parse::<usize>()", ok, "%s" % [(p.get("def"), p.get("ty")) for p in ps])
            # the parsed value is stored unchanged
            cl = [n for n in hir.walk(arm["body"]) if n.get("k") == "Closure"]
            okk = False
            if cl:
                b = hir.last_expr(cl[0]["body"])
                if b["k"] == "Assign":
                    pn = cl[0]["params"][0].get("name")
                    okk = field_path(b["r"]) == (pn,) and field_path(b["l"]) == (hir.pat_bindings(pat)[0],)
            ctx.ob("N-INTERVAL", "set_atom_name Interval stores the parsed value unchanged", okk, "")
        if v == "Placeholder":
            b = strip(arm["body"])
            ctx.ob("N-INTERVAL", "set_atom_name Placeholder ignores the name", hir.is_unit_ok(b) and not hir.find_calls(arm["body"], "push_str"), "")
    ft = F_.term.get("atom.prefix_interval")
    fa = f.hir_fn("fold_atom", module="lexical_fold::impl_enum")
    ps = hir.find_calls(fa["body"], "parse")
    fa_p = [q["name"] for q in fa["params"] if q.get("k") == "Binding"]          # (folder, prefix, name): the name is the 3rd parameter
    ok = len(ps) == 1 and (ps[0].get("def") or "").endswith("str>::parse") and len(fa_p) == 3 and field_path(ps[0]["recv"]) == (fa_p[2],) and "usize" in (ps[0].get("ty") or "")
    ctx.ob("N-INTERVAL", "fold_atom interval = name.parse::<usize>()", ok and root_variant(ft) == "Interval", "fold tree %s" % tree_s(ft))
    ctx.ob("N-INTERVAL", "fold_atom placeholder ignores the name", F_.term.get("atom.prefix_placeholder") == ("ctor", "Placeholder", []),
           "fold tree %s" % tree_s(F_.term.get("atom.prefix_placeholder")))
    # enum parser: the placeholder returns before the name is used
    pa = maps.enum_parser_fn(ctx, "parse_atom")
    ifs = [n for n in hir.walk(pa["body"]) if n.get("k") == "If" and strip(n["cond"])["k"] == "LetExpr"
           and hir.pat_variants(strip(n["cond"])["pat"]) == {"Placeholder"}]
    sets = hir.find_calls(pa["body"], "set_atom_name")
    ok = len(ifs) == 1 and len(sets) == 1 and ifs[0]["line"] < sets[0]["line"] and hir.find_calls(ifs[0]["then"]) is not None \
        and any(x.get("k") == "Ret" for x in hir.walk(ifs[0]["then"]))
    ctx.ob("N-INTERVAL", "parse_atom returns the placeholder before the name is applied", bool(ok), "")
    # ... but only after the characters that follow the prefix have been consumed (`_1`, `_slot` are the placeholder, nothing is left over)
    body = strip(pa["body"])

    def top_index(node):
        for i, st in enumerate(body["stmts"] + ([{"k": "Expr", "expr": body["expr"]}] if body.get("expr") else [])):
            if any(n is node for n in hir.walk(st)):
                return i
        return None
    scans = [n for n in hir.walk(pa["body"]) if n.get("k") == "Loop" and hir.find_calls(n, "head_step_one")]
    okscan = len(scans) == 1 and len(ifs) == 1 and top_index(scans[0]) is not None and top_index(ifs[0]) is not None and top_index(scans[0]) < top_index(ifs[0])
    ctx.ob("N-INTERVAL", "parse_atom consumes the name characters before it returns the placeholder", bool(okscan),
           "the placeholder return must follow the name-scanning loop, else `_x` leaves `x` in the input to be read as another term")
    # the argument is the String the scanning loop pushes into (by identity, whatever it is called)
    pushed = {field_path(c["recv"]) for sc_ in scans for c in hir.find_calls(sc_, "push") if field_path(c["recv"])}
    ctx.ob("N-INTERVAL", "parse_atom applies the scanned name through set_atom_name", len(sets) == 1 and len(pushed) == 1 and field_path(sets[0]["args"][0]) in pushed, "")



def tti_shape(tti):
    """to_terms_with_image: one loop over `..enumerate()` (not reversed) whose body is ONE two-way decision "item is the placeholder and no
    index was recorded yet" (spelled as a tuple match, as `if slot.is_none() && matches!(item, Placeholder)`, ..: hir.decision); that branch
    records the enumerate counter in the slot (`slot.insert(counter)` / `slot = Some(counter)`) and stores nothing, the other branch pushes the
    item to the target vector (the 2nd parameter).  Binders by role: (counter, item) from the `for` pattern."""
    enum_calls = hir.find_calls(tti["body"], "enumerate")
    revs = hir.find_calls(tti["body"], "rev")
    if len(enum_calls) != 1 or revs:
        return False
    loop_b, loop_body = [], None
    for n_ in hir.walk(tti["body"]):
        if n_.get("k") == "Match" and "ForLoop" in n_.get("source", ""):
            for n2 in hir.walk(n_["arms"][0]["body"]):
                if n2.get("k") == "Match":
                    for a_ in n2["arms"]:
                        if hir.pat_variants(a_["pat"]) == {"Some"}:
                            inner_ = (a_["pat"].get("pats") or [fd["pat"] for fd in a_["pat"].get("fields", [])] or [{}])[0]
                            if inner_.get("k") == "Tuple":
                                loop_b = [q.get("name") for q in inner_["pats"]]
                                loop_body = a_["body"]
                    break
            break
    tparams = [q["name"] for q in tti["params"] if q.get("k") == "Binding"]
    if len(loop_b) != 2 or len(tparams) != 2 or loop_body is None:
        return False
    ds = [(n_, hir.decision(n_)) for n_ in hir.walk(loop_body) if n_.get("k") in ("If", "Match")]
    ds = [(n_, d) for n_, d in ds if d is not None and not (n_.get("k") == "Match" and hir.variant_test(n_) is not None)]
    if len(ds) != 1:
        return False
    tests, then, els = ds[0][1]
    subj = {}
    for x, v, pos in tests:
        x0 = strip(x)
        while x0.get("k") == "AddrOf":
            x0 = strip(x0["e"])
        subj[(field_path(x0), v, pos)] = x0
    slot = [k[0] for k in subj if k[1] == "None" and k[2]]
    if len(tests) != 2 or len(slot) != 1 or slot[0] is None or len(slot[0]) != 1 or ((loop_b[1],), "Placeholder", True) not in subj:
        return False
    # the recording branch: counter into the slot, nothing stored
    rec = [c for c in hir.find_calls(then, "insert") if field_path(c["recv"]) == slot[0] and field_path(c["args"][0]) == (loop_b[0],)]
    for n_ in hir.walk(then):
        if n_.get("k") == "Assign" and field_path(n_["l"]) == slot[0]:
            r = strip(n_["r"])
            if r.get("k") == "Call" and hir.callee_name(r) == "Some" and len(r["args"]) == 1 and field_path(r["args"][0]) == (loop_b[0],):
                rec.append(n_)
    if len(rec) != 1 or hir.find_calls(then, "push") or els is None:
        return False
    push = hir.find_calls(els, "push")
    if not (len(push) == 1 and field_path(push[0]["recv"]) == (tparams[1],) and field_path(push[0]["args"][0]) == (loop_b[1],)):
        return False
    # the slot is what the function returns (tail expression) and nothing else writes it
    tail = strip(tti["body"]).get("expr")
    writes = [n_ for n_ in hir.walk(tti["body"]) if (n_.get("k") == "Assign" and field_path(n_["l"]) == slot[0])
              or (n_.get("k") == "MethodCall" and n_.get("method") in ("insert", "replace", "take", "get_or_insert", "get_or_insert_with") and field_path(n_["recv"]) == slot[0])]
    return tail is not None and field_path(tail) == slot[0] and len(writes) == 1


def run(ctx):
    f = ctx.facts
    ev, ctors = maps.rule_M_CTOR(ctx)
    ctx.rule("M-DERIVED", "the four derived constructors evaluate symbolically to the desugared trees stated in the documentation: "
             "instance(S,P)=Inheritance({S},P); property(S,P)=Inheritance(S,[P]); instance_property=Inheritance({S},[P]); "
             "equivalence_retrospective(A,C)=EquivalencePredictive(C,A)")
    for name, want in sorted(SPEC.items()):
        if name not in ctors:
            raise AnchorMissing("constructor %s" % name)
        path, t, n = ctors[name]
        got = to_operands(simplify(t), {"$0": 0, "$1": 1})
        ctx.ob("M-DERIVED", name, got == want, "evaluates to %s, documentation says %s" % (tree_s(got), tree_s(want)))
        ctx.sample({"rule": "M-DERIVED", "ctor": name, "tree": tree_s(got)})
    # both pipelines route the derived keyword fields to these constructors with (subject, predicate) in source order
    P_ = maps.ParserMaps(ctx, ev)
    F_ = maps.FoldMaps(ctx, ev)
    ctx.rule("M-DERIVED-ROUTE", "in the enum parser and in the fold, each derived copula keyword field leads to the desugared tree with "
             "the operand written before the copula as subject and the one after it as predicate")
    fparams = F_.params["fold_statement"]
    fnames = {}
    for i, n in enumerate(fparams):
        if i == 1 and len(fparams) == 4: fnames["$%d" % i] = 0          # fold_statement(folder, subject, copula, predicate): by position
        if i == 3 and len(fparams) == 4: fnames["$%d" % i] = 1
    for fld, cname in sorted(FIELD_OF.items()):
        want = SPEC[cname]
        pt = P_.term.get(fld)
        ft = F_.term.get(fld)
        pg = to_operands(pt, {P_.subject_name: 0, "*": 1}) if pt else None
        fg = to_operands(ft, fnames) if ft else None
        ctx.ob("M-DERIVED-ROUTE", "enum parser %s" % fld, pg == want, "builds %s, expected %s" % (tree_s(pg) if pg else None, tree_s(want)))
        ctx.ob("M-DERIVED-ROUTE", "fold %s" % fld, fg == want, "builds %s, expected %s" % (tree_s(fg) if fg else None, tree_s(want)))
    # subject is parsed before the copula chain, predicate after the keyword skip (source order)
    st = P_.statement_fn
    lets = [s for s in st["body"]["stmts"] if s["k"] == "Let" and s["pat"]["k"] == "Binding"]
    subj = [s for s in lets if hir.find_calls(s["init"], "parse_term")][:1]          # the first operand parsed (whatever the binding is called)
    ok = len(subj) == 1 and hir.find_calls(subj[0]["init"], "parse_term")
    chain = maps.find_chains(st, "starts_with", 2)
    ok = ok and chain and subj[0]["line"] < chain[0]["line"]
    ctx.ob("M-DERIVED-ROUTE", "parse_statement: subject parsed before the copula, predicate after it", bool(ok), "subject binding must precede the copula chain")

    rule_I_INDEX(ctx, ev, ctors)
    rule_N_INTERVAL(ctx, F_)
    # the sugar equations quantify over all operand terms: a derived copula must still be the copula that is read when the subject's
    # name touches it (`<S --] P>` written with the property copula must not be read with another copula)
    import tables
    T = tables.Tables(ctx)
    tables.rule_T_JUXTAPOSE(ctx, T, models=("enum", "lex"),
                            only_written={"copula_instance", "copula_property", "copula_instance_property", "copula_equivalence_retrospective"})
    # component order is preserved end to end (formatter, templates, parsers, fold, accessors)
    import maps as _maps
    _maps.rule_O_ORDER(ctx)
    # the enum parser's productions: which keyword is tested / skipped / handed to which sub-parser, which slot is filled (P-SKELETON), in terms of
    # cursor primitives with exactly their reviewed meaning (P-PRIM)
    import pskel as _pskel
    _pskel.rule_P_PRIM(ctx)
    _pskel.rule_P_SKELETON(ctx)
    # naming-law lints over the modules this property lives in (sibling slips: truth<->budget, stamp<->punctuation, left<->right, swapped arguments)
    import roles as _roles
    _roles.rule_R_ROLE(ctx, modules=('conversion::string::impl_enum::parser', 'conversion::inter_type', 'enum_narsese::term'))
    _roles.rule_A_NAMES(ctx, modules=('conversion::string::impl_enum::parser', 'conversion::inter_type', 'enum_narsese::term'))
    import lskel as _lskel
    _lskel.rule_L_SKELETON(ctx, which=('fold', 'term'), floor=10)
    import maps as _mb
    _mb.rule_M_BINFILL(ctx)
    # the copula look-ahead that ends an atom name compares CHARACTER counts (seed c10-k: a byte length hides two-character Han copulas)
    import maps as _m2
    _m2.rule_U_CHARS(ctx)
    # the look-ahead list that ends an atom name must contain every copula, else a Han derived copula is read as name + basic copula
    # (seed c10-n: copula_equivalence_retrospective missing from NarseseFormat::copulas())
    maps.rule_K_COPULAS(ctx)
    # what a connecter / copula MEANS is fixed per vocabulary by its table; a keyword two vocabularies share must mean the same in both
    import tables as _tb10
    _T10 = _tb10.Tables(ctx)
    _tb10.rule_T_CROSS(ctx, _T10)
    _tb10.rule_T_TENSE(ctx, _T10)
    # a derived copula missing from the lexical vocabulary is read as name + shorter copula (seed c10-x: Han `曾同` replaced by a duplicate)
    _tb10.rule_T_AGREE(ctx, _T10)
    ctx.undecided = ["nothing value-dependent: the desugaring and index rules are shape facts; std's usize::from_str is trusted for the decimal syntax"]
    ctx.assumptions = ["Iterator::position returns the first index satisfying the predicate (std)", "usize::from_str parses decimal"]
    ctx.trusted = ["rustc nightly front end / MIR", "mirfacts driver", "python rule layer"]
    return ("Static check of C10: the derived constructors are evaluated symbolically and compared with an independently written desugaring "
            "table; both pipelines' keyword chains route the four derived copulas to them with operands in source order; the image index "
            "is shown to be the first-placeholder position flowing without arithmetic into the only two places that may write it; interval "
            "and placeholder atoms are checked by callee identity.")
