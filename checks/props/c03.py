"""C03 -- direct enum parse == lexical parse + fold (vocabulary and keyword->constructor clauses)."""
import hir, maps, tables
from facts import AnchorMissing
from maps import tree_s, root_variant

LEVEL = "other"


def norm_operands(t, names):
    """replace operand symbols by positions: names maps symbol-id -> position"""
    if t[0] == "ctor":
        return ("ctor", t[1], [norm_operands(a, names) for a in t[2]])
    if t[0] == "coll":
        return ("coll", t[1], norm_operands(t[2], names))
    if t[0] == "list":
        return ("list", [norm_operands(a, names) for a in t[1]])
    if t[0] == "try":
        return norm_operands(t[1], names)
    key = tree_s(t)
    if key in names:
        return ("operand", names[key])
    return t


def run(ctx):
    T = tables.Tables(ctx)
    tables.rule_T_AGREE(ctx, T)
    ev, ctors = maps.rule_M_CTOR(ctx)
    P = maps.ParserMaps(ctx, ev)
    F = maps.FoldMaps(ctx, ev)
    ctx.rule("M-PARSE=M-FOLD", "every term keyword field of the enum format leads to the same constructor tree (root variant; "
             "statement operands in the same positions) in the enum parser's first-match chains and in the fold's chains; "
             "every table field of a term role is handled by both (no missing opcode)")
    ctx.rule("M-SKIP", "the keyword a parser branch skips is the keyword it tested")
    # which fields exist (from the ADT definitions): prefixes, connecters, copulas, set brackets
    e = T.e_roles(T.names[0])
    fields = ["atom." + k for k in e["prefix"]] + ["compound." + k for k in e["connecter"]] + \
             ["statement." + k for k in e["copula"]] + ["compound." + k for k in e["set_brackets"]]
    ctx.floor("term keyword fields", len(fields), 34)
    for fld in sorted(fields):
        pt, ft = P.term.get(fld), F.term.get(fld)
        if pt is None or ft is None:
            ctx.ob("M-PARSE=M-FOLD", "%s handled" % fld, False,
                   "no handler in %s" % ("enum parser" if pt is None else "fold"))
            continue
        pv, fv = root_variant(pt), root_variant(ft)
        ctx.ob("M-PARSE=M-FOLD", "%s root" % fld, pv is not None and pv == fv,
               "enum parser -> %s ; fold -> %s" % (tree_s(pt), tree_s(ft)))
        if fld.startswith("statement."):
            # operand positions: parser: subject local / predicate = value parsed after the copula;
            # fold: parameters subject(1), predicate(3) of fold_statement
            pn = norm_operands(pt, {P.subject_name: 0})
            # any remaining non-ctor leaf in the parser tree is the predicate expression
            def leafmap(t):
                if t[0] in ("ctor",):
                    return ("ctor", t[1], [leafmap(a) for a in t[2]])
                if t[0] == "coll":
                    return ("coll", t[1], leafmap(t[2]))
                if t[0] == "list":
                    return ("list", [leafmap(a) for a in t[1]])
                if t[0] == "operand":
                    return t
                return ("operand", 1)
            pn = leafmap(pn)
            fparams = F.params["fold_statement"]
            names = {}
            for i, n in enumerate(fparams):
                if i == 1 and len(fparams) == 4: names["$%d" % i] = 0        # fold_statement(folder, subject, copula, predicate): by position
                if i == 3 and len(fparams) == 4: names["$%d" % i] = 1
            fn = norm_operands(ft, names)
            ctx.ob("M-PARSE=M-FOLD", "%s operands" % fld, pn == fn,
                   "enum parser builds %s ; fold builds %s (0=subject,1=predicate)" % (tree_s(pn), tree_s(fn)))
            ctx.sample({"rule": "M-PARSE=M-FOLD", "field": fld, "parser": tree_s(pn), "fold": tree_s(fn)})
    maps.rule_K_COPULAS(ctx)
    # sentence-level fold: stamp and punctuation through the enum parser's side doors, truth/budget via try_from_floats
    ctx.rule("M-FOLD-DOORS", "fold of Sentence reaches stamp and punctuation through NarseseFormat::parse::<Stamp|Punctuation> and "
             "truth/budget through try_from_floats (so both pipelines share one keyword->value map for these items)")
    f = ctx.facts
    sent = [it for p, it in f.hir.items() if it["name"] == "try_fold_into" and ((it.get("impl") or {}).get("self_ty") or "") == "lexical::sentence::Sentence"]
    if len(sent) != 1:
        raise __import__("facts").AnchorMissing("TryFoldInto for lexical Sentence")
    ctx.fn(sent[0])
    calls = [c for c in hir.find_calls(sent[0]["body"], "parse")]
    tys = sorted((c.get("ty") or "") for c in calls)
    ctx.ob("M-FOLD-DOORS", "sentence stamp via enum parser", any("Stamp" in t for t in tys), "no parse::<Stamp> call: %s" % tys)
    ctx.ob("M-FOLD-DOORS", "sentence punctuation via enum parser", any("Punctuation" in t for t in tys), "no parse::<Punctuation> call: %s" % tys)
    for who, ty in (("Truth", "lexical::sentence::Truth"), ("Budget", "lexical::task::Budget")):
        ok = False
        for it in f.hir.values():
            if it["name"] == "try_fold_into" and "lexical_fold::impl_enum" in it["path"]:
                for c in hir.find_calls(it["body"], "try_from_floats"):
                    if who.lower() in (hir.callee(c) or "").lower():
                        ok = True
                        ctx.fn(it)
        ctx.ob("M-FOLD-DOORS", "%s via try_from_floats" % who.lower(), ok, "no call of %s::try_from_floats in a fold impl" % who)
    # ---- cross-listed structural conditions (each is a necessary condition of this property as well; round-2 seeds showed changes
    # to them being caught only by the check of a neighbouring property)
    import c09, c10
    c10.rule_I_INDEX(ctx, ev, ctors)          # image placeholder position and component order (enum parser, fold)
    c10.rule_N_INTERVAL(ctx, maps.FoldMaps(ctx, ev))   # interval value, placeholder ignores what follows its prefix
    maps.rule_U_CHARS(ctx)                    # borders are char counts
    c09.rule_W_ENUM(ctx)                      # the spaces the formatter writes are skipped at every token boundary
    # the two pipelines must recognise copulas/brackets by full matches: the enum look-ahead once accepted a truncated copula at the end of input where the lexical matcher did not (D9)
    import fullmatch
    fullmatch.rule_P_FULLMATCH(ctx)
    # a bare term that ends in an identifier-only stamp/truth keyword (Han) must reach the term segmenter whole (D11)
    import suffix
    suffix.rule_S_SUFFIX(ctx, T)
    # "both succeed": the start of a formatter output must not be readable as a budget (Han `预算` is rejected by both pipelines)
    tables.rule_T_BUDGET_IDENT(ctx, T, models=("enum", "lex"))
    # numeric items: both pipelines must turn n numbers into the same constructor with the numbers in order -- the enum parser through
    # `match num` (A-COUNT), the fold through the try_from_floats ladders (V-CTOR) (seed c03-c: new_double(p, q) in the enum parser only)
    import c01, c13
    c01.a_count_parser(ctx)
    ctx.rule("V-CTOR", "fold side of the numeric items: Truth/Budget::try_from_floats returns the k-component constructor for k items, in order")
    for tname, (adtp, mod) in c13.TYPES.items():
        adt = f.adts.get(adtp)
        if adt is None:
            raise AnchorMissing(adtp)
        c13.v_ladder(ctx, tname, adtp, max(len(v["fields"]) for v in adt["variants"]))
    # component order is preserved end to end (formatter, templates, parsers, fold, accessors)
    import maps as _maps
    _maps.rule_O_ORDER(ctx)
    # a bracketed-number alternative whose opening keyword can also start a term must not leave its slot filled when it backs off:
    # a stale (empty) budget turns the sentence into a task in the enum parser only (seeds c01-b/c, c15-d)
    import c01 as _c01, tables as _tables
    _c01.x_conflict(ctx, _tables.Tables(ctx))
    # parser state: any field beyond the reviewed ones is unmodelled state (seed c06-e: an atom cache keyed by the bare name; c09-f: a stale
    # copula index surviving reset_to)
    import c08 as _c08
    _c08.rule_S_FIELDS(ctx)
    # the parsers store names and components through the two term mutators and rely on them storing verbatim / completely
    # (seeds c12-e: push_components dropped placeholders, c12-f: set_atom_name trimmed underscores)
    import c17 as _c17
    _c17.rule_K_MUTATOR(ctx)
    import tables as _t2
    _t2.rule_T_IDENT_CLASS(ctx, _t2.Tables(ctx), models=("enum", "lex"))
    # the enum parser's productions: which keyword is tested / skipped / handed to which sub-parser, which slot is filled (P-SKELETON), in terms of
    # cursor primitives with exactly their reviewed meaning (P-PRIM)
    import pskel as _pskel
    _pskel.rule_P_PRIM(ctx)
    _pskel.rule_P_SKELETON(ctx)
    # naming-law lints over the modules this property lives in (sibling slips: truth<->budget, stamp<->punctuation, left<->right, swapped arguments)
    import roles as _roles
    _roles.rule_R_ROLE(ctx, modules=('conversion::', 'enum_narsese::', 'lexical::'))
    _roles.rule_A_NAMES(ctx, modules=('conversion::', 'enum_narsese::', 'lexical::'))
    # every formatter function against its reviewed emission skeleton
    import emit as _emit
    _emit.rule_F_SKELETON_ALL(ctx)
    import lskel as _lskel
    _lskel.rule_L_SKELETON(ctx, which=('lexical', 'fold', 'term'), floor=10)
    import maps as _mb
    _mb.rule_M_BINFILL(ctx)
    import tables as _t3
    _t3.rule_T_SPACE(ctx, _t3.Tables(ctx), models=("enum", "lex"))
    # the kind of the value read back (task / sentence / term) is decided by slot presence alone, identically in both parsers (seed c11-h)
    import c15 as _c15
    _c15.rule_K_KIND(ctx)
    # values are compared with `==`, and set-like components live in hash sets: equality of nested unordered compounds needs the semantic
    # Eq (H-EQSHAPE) AND a hash that agrees with it and does not depend on enumeration order (H-ORDER / H-HASH) -- seeds c01-h, c17-h
    import eqhash as _eqh
    _st, _cap = _eqh.rule_H_STORAGE(ctx)
    _classes = _eqh.rule_H_EQSHAPE(ctx, _st, _cap)
    _eqh.rule_H_ORDER(ctx)
    _eqh.rule_H_HASH(ctx, _st, _classes)
    # the lexical segmenters advance by the length of the keyword they have just matched (B-LEN's FITS generators): a step taken with another
    # keyword's length stays in range but cuts the wrong token (seed c02-l)
    import blen as _blen
    _blen.rule_B_LEN(ctx)
    # what the lexical parser accepts as stamp / truth / budget content is a property of the format tables' predicates (seeds c03-k, c11-k: '0'..'9')
    import tables as _tb
    _tb.rule_T_PRED(ctx, _tb.Tables(ctx))
    ctx.undecided = ["equality of the two pipelines' values on every string (nesting, leniency on malformed input)"]
    ctx.assumptions = ["rustc HIR/name resolution is correct", "nar_dev_utils 0.42.3 dictionary semantics as read from its source"]
    ctx.trusted = ["rustc nightly front end (HIR, typeck)", "mirfacts driver", "python rule layer"]
    return ("Static agreement check. The vocabulary clause of C03 (enum and lexical format instances of the same name describe the "
            "same vocabulary) is decided exactly as a finite statement over the six tables extracted from HIR; the keyword->constructor "
            "maps of the enum parser chains and the fold chains are extracted by symbolic evaluation and compared for all term keyword "
            "fields incl. derived copulas, with operand order. Decides these structural necessary conditions, not value equality on all strings.")
