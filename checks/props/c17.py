"""C17 -- term mutators change exactly what they say, or fail and change nothing."""
import json, os, re
import hir, mir, eqhash
from hir import strip, field_path, Unrecognised
from facts import AnchorMissing, REPO

LEVEL = "other"

# summaries of dependency helpers on analysed paths, read from the pinned source (nar_dev_utils 0.42.3
# src/opt_res_boost/result.rs: `match self { Ok(ok) => Ok(transformer_ok(ok)), Err(err) => Err(transformer_err(err)) }`)
DEP_SUMMARIES = {
    "nar_dev_utils::ResultBoost::transform": {"version": "0.42.3", "ok_only_closure_args": [1], "err_only_closure_args": [2],
                                              "returns_err_iff_receiver_err": True},
}


def dep_version(name):
    try:
        s = open(os.path.join(os.environ.get("VERIF_REPO", REPO), "Cargo.lock"), encoding="utf-8").read()
    except OSError:
        return None
    m = re.search(r'name = "%s"\nversion = "([^"]+)"' % re.escape(name), s)
    return m.group(1) if m else None


def self_writes(ctx, body):
    """write events through the &mut self argument: [(block, description, kind)] with kind in
       'direct' | 'call' | ('closure', callee def, arg index)"""
    g = mir.cfg(body)
    out = []

    def from_self(op, depth=0):
        if op["k"] not in ("Copy", "Move"):
            return False
        l = op["place"]["local"]
        if l == 1:
            return True
        if depth > 8:
            return False
        for d in g.defs.get(l, []):
            rv = d[2]
            if rv["k"] in ("Use", "Cast") and from_self(rv["op"], depth + 1):
                return True
            if rv["k"] in ("Ref", "RawPtr", "CopyForDeref") and from_self({"k": "Copy", "place": rv["place"]}, depth + 1):
                return True
            if rv["k"] == "Aggregate" and any(from_self(o, depth + 1) for o in rv["ops"]):
                return True
        return False

    def is_mut_ref(op):
        if op["k"] not in ("Copy", "Move"):
            return False
        return body["locals"][op["place"]["local"]]["ty"].startswith("&mut")

    for bi in sorted(g.reach):
        bl = body["blocks"][bi]
        if bl["cleanup"]:
            continue
        for s in bl["stmts"]:
            if s["k"] == "Assign" and s["place"]["proj"] and from_self({"k": "Copy", "place": {"local": s["place"]["local"], "proj": []}}):
                if any(e["k"] == "Deref" for e in s["place"]["proj"]):
                    out.append((bi, "store to %s at line %s" % (g.path_s({"k": "Copy", "place": s["place"]}), s["line"]), "direct"))
        t = bl["term"]
        if t["k"] == "Call":
            cal = mir.callee_fn(t) or {}
            for ai, a in enumerate(t["args"]):
                if a["k"] not in ("Copy", "Move"):
                    continue
                lty = body["locals"][a["place"]["local"]]["ty"]
                if lty.startswith("&mut") and from_self(a):
                    out.append((bi, "%s(&mut self…) at line %s" % (cal.get("name"), t["line"]), "call"))
                elif "{closure@" in lty and from_self(a):
                    out.append((bi, "closure capturing &mut self passed to %s at line %s" % (cal.get("name"), t["line"]), ("closure", cal.get("def"), ai)))
    return g, out


def err_blocks(body, g):
    """blocks that construct the Err return value (aggregate Result::Err into _0 or into a local moved to _0)"""
    out = []
    for bi in sorted(g.reach):
        for s in body["blocks"][bi]["stmts"]:
            if s["k"] == "Assign" and s["rv"]["k"] == "Aggregate" and s["rv"].get("agg") == "Adt" and s["rv"]["adt"].endswith("result::Result") and s["rv"]["variant"] == "Err":
                out.append(bi)
    return out


def rule_nowrite(ctx, body):
    g, writes = self_writes(ctx, body)
    errs = err_blocks(body, g)
    name = body["name"]
    ctx.floor("%s Err constructions" % name, len(errs), 1)
    bad = []
    for bi, desc, kind in writes:
        if isinstance(kind, tuple):
            summ = DEP_SUMMARIES.get(kind[1])
            if summ is None:
                bad.append("%s: no summary for callee %s" % (desc, kind[1]))
                continue
            if kind[2] in summ["err_only_closure_args"]:
                bad.append("%s: the closure runs on the Err path" % desc)
            elif kind[2] not in summ["ok_only_closure_args"]:
                bad.append("%s: closure argument position %d not covered by the summary" % (desc, kind[2]))
            continue
        reach = g.reachable_from(bi)
        hit = [e for e in errs if e in reach]
        if hit:
            bad.append("%s can be followed by an Err return" % desc)
    ctx.ob("E-NOWRITE-ON-ERR", name, not bad, "; ".join(bad), "%s:%s" % (body["span"]["file"], body["span"]["line"]))
    ctx.extra.setdefault("write_events", {})[name] = [w[1] for w in writes]


def rule_K_MUTATOR(ctx):
    f = ctx.facts
    st, cap = eqhash.rule_H_STORAGE(ctx)
    import deps
    deps.require_nar_dev_utils(ctx, ["src/opt_res_boost/result.rs"])
    ctx.rule("K-MUTATOR", "set_atom_name: the arm that clears+pushes the name covers exactly the String-storage variants and returns Ok; "
             "Placeholder returns Ok without a write; Interval parses with str::parse::<usize> and writes only in the Ok continuation; every "
             "other variant returns Err. get_atom_name_unchecked returns the stored name verbatim. push_components: vec.extend for exactly the "
             "capacity class Vec, set.extend for exactly the class Set, Err for all other classes")
    san = f.hir_fn("set_atom_name", module="enum_narsese::term")
    ctx.fn(san)
    m = hir.top_match(san)
    san_p = ([q["name"] for q in san["params"] if q.get("k") == "Binding" and q["name"] != "self"] + [None])[0]       # the new name: 1st parameter after self
    named = {v for v, s in st.items() if s == ["string"]}
    got_named, got_ok_nowrite, got_parse, wild_err = set(), set(), set(), False
    for v, arm, pat in hir.arms_by_variant(m):
        b = arm["body"]
        binds = hir.pat_bindings(pat)
        if v == "_":
            t = hir.last_expr(b)
            wild_err = t["k"] == "Call" and hir.callee_name(t) == "Err"
            continue
        calls = [hir.callee_name(c) for c in hir.find_calls(b)]
        t = hir.last_expr(b)
        if "clear" in calls and "push_str" in calls:
            cl = hir.find_calls(b, "clear")[0]
            ps = hir.find_calls(b, "push_str")[0]
            # ... unconditionally: the arm is clear, push_str, Ok(()) and nothing else -- no branch, no early return (seed c17-o: an
            # `if new_name.is_empty() { return Ok(()) }` in front left the old name in place)
            ctl = [n_ for n_ in hir.walk(b) if n_.get("k") in ("If", "Match", "Ret", "Loop", "Break", "Continue")]
            ok = field_path(cl["recv"]) == (binds[0],) and field_path(ps["recv"]) == (binds[0],) and field_path(ps["args"][0]) == (san_p,) \
                and cl["line"] <= ps["line"] and hir.is_unit_ok(t) and not ctl and calls.count("clear") == 1 and calls.count("push_str") == 1
            if ok:
                got_named.add(v)
        elif hir.is_unit_ok(t) and not [c for c in calls if c not in ("Ok",)]:
            got_ok_nowrite.add(v)
        elif "parse" in calls and "transform" in calls:
            got_parse.add(v)
    # first-match semantics: a guarded or duplicated arm can pre-empt the decoded one (seeded c17-b: a digit-only guard before the parse)
    guarded = [a for a in m["arms"] if a.get("guard")]
    seen_v = [v for v, arm, pat in hir.arms_by_variant(m)]
    dup = sorted({v for v in seen_v if seen_v.count(v) > 1})
    ctx.ob("K-MUTATOR", "set_atom_name: no guarded or duplicated arm (each constructor is decided by exactly one arm)", not guarded and not dup,
           "guarded arms at lines %s; duplicated variants %s" % ([a.get("line") for a in guarded], dup))
    for v, arm, pat in hir.arms_by_variant(m):
        if v == "Interval":
            t = hir.last_expr(arm["body"])
            ps = hir.find_calls(arm["body"], "parse")
            ok = t["k"] == "MethodCall" and t["method"] == "transform" and len(ps) == 1 and strip(t["recv"]) is ps[0] \
                and (ps[0].get("def") or "").endswith("str>::parse") and field_path(ps[0]["recv"]) == (san_p,) and "usize" in (ps[0].get("ty") or "")
            ctx.ob("K-MUTATOR", "set_atom_name Interval: the whole arm is new_name.parse::<usize>().transform(store, error)", ok,
                   "the accepted syntax must be exactly std's usize::from_str (optional '+', decimal digits, fits the word)")
    ctx.ob("K-MUTATOR", "set_atom_name renames exactly the String-storage atoms", got_named == named, "renames %s, String storage: %s" % (sorted(got_named), sorted(named)))
    ctx.ob("K-MUTATOR", "set_atom_name Placeholder: Ok without write", got_ok_nowrite == {"Placeholder"}, "%s" % sorted(got_ok_nowrite))
    ctx.ob("K-MUTATOR", "set_atom_name Interval: parse then write", got_parse == {"Interval"}, "%s" % sorted(got_parse))
    ctx.ob("K-MUTATOR", "set_atom_name others: Err", wild_err, "fallback arm must return Err")
    # name accessor
    gan = f.hir_fn("get_atom_name_unchecked", module="enum_narsese::term")
    ctx.fn(gan)
    m2 = hir.top_match(gan)
    acc_named = set()
    for v, arm, pat in hir.arms_by_variant(m2):
        binds = hir.pat_bindings(pat)
        t = hir.last_expr(arm["body"])
        if v in named:
            if t["k"] == "MethodCall" and t["method"] == "clone" and field_path(t["recv"]) == (binds[0],):
                acc_named.add(v)
        elif v == "Interval":
            ctx.ob("K-MUTATOR", "get_atom_name_unchecked Interval = value.to_string()",
                   t["k"] == "MethodCall" and t.get("def") == "std::string::ToString::to_string" and field_path(t["recv"]) == (binds[0],), "")
        elif v == "Placeholder":
            ctx.ob("K-MUTATOR", "get_atom_name_unchecked Placeholder = empty", t["k"] == "Call" and (hir.callee(t) or "").endswith("String::new"), "")
    ctx.ob("K-MUTATOR", "get_atom_name_unchecked returns the stored name verbatim", acc_named == named, "%s" % sorted(acc_named))
    ga = f.hir_fn("get_atom_name", module="enum_narsese::term")
    links, els = hir.if_chain(ga["body"])
    ok = len(links) == 1 and strip(links[0][0])["k"] == "MethodCall" and strip(links[0][0])["method"] == "is_atom" \
        and hir.find_calls(links[0][1], "get_atom_name_unchecked") and els is not None and hir.last_expr(els)["k"] == "Path"
    ctx.ob("K-MUTATOR", "get_atom_name = Some(unchecked name) iff is_atom", bool(ok), "")
    # push_components
    pc = f.hir_fn("push_components", module="enum_narsese::term")
    ctx.fn(pc)
    om = hir.top_match(pc)
    pc_p = ([q["name"] for q in pc["params"] if q.get("k") == "Binding" and q["name"] != "self"] + [None])[0]         # the pushed components: 1st parameter after self
    sc = strip(om["scrut"])
    ctx.ob("K-MUTATOR", "push_components dispatches on get_capacity()", sc["k"] == "MethodCall" and sc["method"] == "get_capacity", "")
    err_classes, inner = set(), None
    for v, arm, pat in hir.arms_by_variant(om):
        t = hir.last_expr(arm["body"])
        if v == "_":
            inner = t if t["k"] == "Match" else None
        elif t["k"] == "Call" and hir.callee_name(t) == "Err":
            err_classes.add(v)
    ctx.ob("K-MUTATOR", "push_components fails for the fixed-capacity classes", err_classes == {"Atom", "Unary", "BinaryVec", "BinarySet"}, "%s" % sorted(err_classes))
    vec_v, set_v, inner_err = set(), set(), False
    if inner is None:
        ctx.unrecognised("K-MUTATOR", "push_components", "no inner match for the multi classes")
    else:
        for v, arm, pat in hir.arms_by_variant(inner):
            if v == "_":
                t = hir.last_expr(arm["body"])
                inner_err = t["k"] == "Call" and hir.callee_name(t) == "Err"
                continue
            binds = hir.pat_bindings(pat)
            ex = hir.find_calls(arm["body"], "extend")
            # unconditionally: the arm is the extend and Ok(()) -- no branch, loop or early return around it (cf. seed c17-o)
            ctl = [n_ for n_ in hir.walk(arm["body"]) if n_.get("k") in ("If", "Match", "Ret", "Loop", "Break", "Continue")]
            if len(ex) == 1 and not ctl and field_path(ex[0]["args"][0]) == (pc_p,) and hir.is_unit_ok(hir.last_expr(arm["body"])):
                tgt = field_path(ex[0]["recv"])
                pos = binds.index(tgt[0]) if tgt and tgt[0] in binds else None
                if pos is not None and st[v][pos] == "vec":
                    vec_v.add(v)
                elif pos is not None and st[v][pos] == "set":
                    set_v.add(v)
        ctx.ob("K-MUTATOR", "push_components appends in order to exactly the Vec class", vec_v == {v for v in st if cap.get(v) == "Vec"}, "%s" % sorted(vec_v))
        ctx.ob("K-MUTATOR", "push_components unites into exactly the Set class", set_v == {v for v in st if cap.get(v) == "Set"}, "%s" % sorted(set_v))
        ctx.ob("K-MUTATOR", "push_components inner fallback: Err", inner_err, "")


def run(ctx):
    f = ctx.facts
    rule_K_MUTATOR(ctx)
    # effect analysis
    ctx.rule("E-NOWRITE-ON-ERR", "MIR effect analysis of set_atom_name and push_components: no store through / &mut borrow of *self handed to a "
             "call can be followed by the construction of an Err return value; a closure capturing &mut self is allowed only in an Ok-only "
             "argument position of a summarised dependency helper (ResultBoost::transform, nar_dev_utils 0.42.3)")
    for nm in ("set_atom_name", "push_components"):
        rule_nowrite(ctx, f.mir_fn(nm, module="enum_narsese::term"))
    # the Ok-continuation closure of the interval arm writes exactly the parsed value
    cl = [b for p, b in f.mir.items() if "set_atom_name::{closure#0}" in p]
    ok = False
    if cl:
        g = mir.cfg(cl[0])
        stores = [s for bl in cl[0]["blocks"] for s in bl["stmts"] if s["k"] == "Assign" and s["place"]["proj"]]
        ok = len(stores) == 1 and stores[0]["rv"]["k"] == "Use" and g.resolve_operand(stores[0]["rv"]["op"])[0] == ("arg", 2)
    ctx.ob("E-NOWRITE-ON-ERR", "interval Ok-continuation stores exactly the parsed value", ok, "")
    # naming-law lints over the modules this property lives in (sibling slips: truth<->budget, stamp<->punctuation, left<->right, swapped arguments)
    import roles as _roles
    _roles.rule_R_ROLE(ctx, modules=('enum_narsese::term',))
    _roles.rule_A_NAMES(ctx, modules=('enum_narsese::term',))
    import lskel as _lskel
    _lskel.rule_L_SKELETON(ctx, which=('term',), floor=10)
    # push_components into a set-backed compound deduplicates by Eq and places by Hash: both must be the semantic ones (seed c17-h)
    import eqhash as _eqh
    _st, _cap = _eqh.rule_H_STORAGE(ctx)
    _classes = _eqh.rule_H_EQSHAPE(ctx, _st, _cap)
    _eqh.rule_H_ORDER(ctx)
    _eqh.rule_H_HASH(ctx, _st, _classes)
    ctx.undecided = ["the exact accepted integer syntax (std's usize::from_str, trusted: optional leading '+', decimal digits, must fit usize)"]
    ctx.assumptions = ["nar_dev_utils::ResultBoost::transform runs its first closure iff the receiver is Ok, the second iff Err (read from the pinned source; version asserted)"]
    ctx.trusted = ["rustc HIR/MIR", "mirfacts driver", "python rule layer", "std String::clear/push_str, Vec/HashSet::extend semantics"]
    return ("Decision tables of the two mutators extracted from HIR and compared with storage kind and capacity class for all 30 constructors, "
            "plus a MIR effect analysis showing that no write through &mut self can precede an Err return.")
