"""C13 -- truth, budget and evidence numbers accept exactly the closed unit interval."""
import re, os
import hir, deps, maps, psel
from hir import strip, field_path, Unrecognised
from facts import AnchorMissing

LEVEL = "other"
TYPES = {"Truth": ("enum_narsese::sentence::truth::Truth", "enum_narsese::sentence::truth"),
         "Budget": ("enum_narsese::task::budget::Budget", "enum_narsese::task::budget")}
NAMES = ["new_empty", "new_single", "new_double", "new_triple"]


def _panics(e):
    return any("panic" in (hir.callee(c) or "") or (hir.callee(c) or "").startswith("std::rt::") for c in hir.find_calls(e))


def validated_param(e, method):
    """`*p.validate_01()` / `*v.try_validate_01()?` -> p"""
    e = strip(e)
    if e["k"] == "Unary" and e["op"] == "*":
        x = strip(e["e"])
        t = maps.try_inner(x)
        if t is not None:
            x = strip(t)
        if x["k"] == "MethodCall" and (x.get("def") or "").endswith("ZeroOneFloat::" + method) and not x["args"]:
            p = field_path(x["recv"])
            if p and len(p) == 1:
                return p[0]
    return None


def v_paths(ctx, tname, adtp, maxn):
    """V-CTOR by path-sensitive evaluation of try_from_floats' MIR (rules/pathval.py).  Proven when on EVERY path:
      - the outcomes of the next() calls are Some^j None (j < maxn) or Some^maxn, and no next() result is left unexamined;
      - if a validation failed the function returns an Err (from_residual / Err(..)), never an Ok;
      - otherwise it returns Ok(new_j(x0..x(j-1))) with x_i the payload of the i-th next(), validated on this path;
    and every j in 0..maxn occurs.  Returns (description, None) or (None, reason): "not proven" is never a violation by itself."""
    import pathval
    f = ctx.facts
    bodies = [b for p, b in f.mir.items() if p == adtp + "::try_from_floats"]
    if len(bodies) != 1:
        return None, "no MIR body"
    res, why = pathval.paths(bodies[0], ctor_prefixes=(adtp + "::new_",))
    if res is None:
        return None, why
    seen = set()
    for events, ret, nexts, valid, _assumed in res:
        failed = any(e[0] in ("validate", "in01") and not e[2] for e in events)
        is_ok = ret[0] == "agg" and ret[2] == "Ok"
        if failed:
            if is_ok or ret[0] not in ("err", "agg"):
                return None, "a path with a failed validation returns %s" % pathval.show(ret)
            continue
        outs = [e[2] for e in events if e[0] == "next"]
        idx = [e[1] for e in events if e[0] == "next"]
        if idx != list(range(nexts)):
            return None, "a next() result is not examined (or examined twice) on a path"
        j = len([o for o in outs if o == "Some"])
        if outs != ["Some"] * j + (["None"] if j < maxn else []) or j > maxn:
            return None, "next() outcomes %s on a path" % outs
        if not (is_ok and len(ret[4]) == 1 and ret[4][0][0] == "ctor" and ret[4][0][1] == NAMES[j] and len(ret[4][0][2]) == j
                and all(pathval.is_valid_item(a, i, valid) for i, a in enumerate(ret[4][0][2]))):
            return None, "with %d items present a path returns %s" % (j, pathval.show(ret))
        seen.add(j)
    if seen != set(range(maxn + 1)):
        return None, "item counts with a successful path: %s" % sorted(seen)
    return "decided on %d paths by path-sensitive evaluation of the MIR body (every path returns Ok(new_j(first j validated items)) or an error)" % len(res), None


def v_ladder(ctx, tname, adtp, maxn):
    """try_from_floats: the k-th next() is validated before use; when it is missing the k-component constructor is returned with the items so
    far in order; with all items present the full constructor.  Three spellings of a step are read:
        let x = match it.next() { Some(v) => *v.try_validate_01()?, None => return Ok(new_k(..)) };
        let Some(v) = it.next() else { return Ok(new_k(..)) };   let x = *v.try_validate_01()?;
        match it.next() { None => Ok(new_k(..)), Some(v) => { let x = *v.try_validate_01()?; <rest of the ladder> } }       (as the tail)"""
    f = ctx.facts
    it = f.hir_fn("try_from_floats", self_ty=adtp)
    ctx.fn(it)
    # proof beats reference: when every path of the (loop-free) MIR body provably does what V-CTOR states, the spelling of the ladder is free
    proof, why = v_paths(ctx, tname, adtp, maxn)
    if proof:
        ctx.extra.setdefault("v_ctor_path_evaluation", {})[tname] = proof
        ctx.ob("V-CTOR", "%s::try_from_floats reads at most %d items" % (tname, maxn), True, proof)
        for k in range(maxn):
            ctx.ob("V-CTOR", "%s::try_from_floats step %d" % (tname, k), True, proof)
        ctx.ob("V-CTOR", "%s::try_from_floats full arity" % tname, True, proof)
        ctx.ob("V-CTOR", "%s::try_from_floats consists of the ladder only" % tname, True, proof)
        return
    ctx.extra.setdefault("v_ctor_path_evaluation", {})[tname] = "not proven (%s): decided by the ladder shape" % why

    def next_call(e_):
        e_ = strip(e_) if e_ else None
        return bool(e_) and e_["k"] == "MethodCall" and e_["method"] == "next"

    def some_binding(pat):
        try:
            if hir.pat_variants(pat) != {"Some"}:
                return None
        except hir.Unrecognised:
            return None
        b_ = hir.pat_bindings(pat) or [fd["pat"].get("name") for fd in pat.get("fields", [])]
        return b_[0] if len(b_) == 1 else None

    def ok_ctor(e_, k, bound):
        """e_ is `Ok(new_k(bound..))`, possibly behind `return`"""
        e_ = strip(e_) if e_ else None
        if e_ is not None and e_["k"] == "Block":
            rets = [n_ for n_ in hir.walk(e_) if n_.get("k") == "Ret"]
            e_ = rets[0] if len(rets) == 1 else (strip(hir.last_expr(e_)) if e_.get("expr") else None)
        if e_ is not None and e_["k"] == "Ret":
            e_ = strip(e_["e"])
        if e_ is None or e_["k"] != "Call" or hir.callee_name(e_) != "Ok":
            return False
        inner = strip(e_["args"][0])
        return inner["k"] == "Call" and k < len(NAMES) and hir.callee_name(inner) == NAMES[k] and [field_path(a) for a in inner["args"]] == [(x,) for x in bound]

    extra = []
    steps = []          # (validated?, absence returns the right constructor?)
    bound = []
    temps = {}

    def walk(block):
        nonlocal temps
        block = strip(block)
        stmts = block["stmts"] if block["k"] == "Block" else []
        tail = block.get("expr") if block["k"] == "Block" else block
        raw_pending = None
        for s_ in stmts:
            if s_["k"] == "Item":
                continue
            if s_["k"] != "Let":
                # the ladder consists of its steps and nothing else: any other statement (seed c13-j: an `if let (0, _) = it.size_hint() {
                # return Ok(new_empty()) }` fast path in front of it) can return without reading / validating the items
                extra.append(s_.get("line"))
                continue
            init = strip(s_["init"]) if s_.get("init") else None
            if init is not None and init["k"] == "Match" and next_call(init["scrut"]):
                some_ok, none_ok = False, False
                for v, arm, pat in hir.arms_by_variant(init):
                    if v == "Some":
                        some_ok = validated_param(arm["body"], "try_validate_01") == some_binding(pat)
                    if v == "None":
                        none_ok = ok_ctor(arm["body"], len(steps), bound)
                steps.append((some_ok, none_ok))
                bound.append(s_["pat"].get("name"))
            elif s_.get("els") and next_call(s_.get("init")) and some_binding(s_["pat"]):
                raw_pending = (some_binding(s_["pat"]), ok_ctor(s_["els"], len(steps), bound))
            elif raw_pending and init is not None and validated_param(init, "try_validate_01") == raw_pending[0] and s_["pat"].get("k") == "Binding":
                steps.append((True, raw_pending[1]))
                bound.append(s_["pat"]["name"])
                raw_pending = None
            elif s_["pat"].get("k") == "Binding" and init is not None:
                temps.update(hir.let_env({"k": "Block", "stmts": [s_], "expr": None}))
        if raw_pending:
            steps.append((False, raw_pending[1]))        # extracted but never validated
        t_ = strip(tail) if tail is not None else None
        if t_ is not None and t_["k"] == "Match" and next_call(t_["scrut"]):
            none_ok, some_arm = False, None
            for v, arm, pat in hir.arms_by_variant(t_):
                if v == "None":
                    none_ok = ok_ctor(arm["body"], len(steps), bound)
                if v == "Some":
                    some_arm = (arm, some_binding(pat))
            if some_arm is None:
                steps.append((False, none_ok))
                return None
            body_ = strip(some_arm[0]["body"])
            first = [x for x in (body_["stmts"] if body_["k"] == "Block" else []) if x["k"] == "Let"][:1]
            ok_val = bool(first) and first[0].get("init") is not None and validated_param(first[0]["init"], "try_validate_01") == some_arm[1] \
                and first[0]["pat"].get("k") == "Binding"
            steps.append((ok_val, none_ok))
            if ok_val:
                bound.append(first[0]["pat"]["name"])
                rest = dict(body_, stmts=[x for x in body_["stmts"] if x is not first[0]])
                return walk(rest)
            return None
        return t_

    body = strip(it["body"])
    tail = walk(body) if body["k"] == "Block" else walk({"k": "Block", "stmts": [], "expr": body})
    nexts = hir.find_calls(it["body"], "next")
    ctx.ob("V-CTOR", "%s::try_from_floats reads at most %d items" % (tname, maxn), len(nexts) == maxn and len(steps) == maxn, "%d next() calls, %d steps" % (len(nexts), len(steps)))
    for k, (some_ok, none_ok) in enumerate(steps):
        ctx.ob("V-CTOR", "%s::try_from_floats step %d" % (tname, k), some_ok and none_ok,
               "item %d must be validated before use and its absence must return %s(first %d items)" % (k, NAMES[min(k, len(NAMES) - 1)], k))
    ok = False
    if tail is not None:
        t2 = hir.through_lets(tail, temps)
        ok = ok_ctor(t2, maxn, bound)
    ctx.ob("V-CTOR", "%s::try_from_floats full arity" % tname, ok, "")
    ctx.ob("V-CTOR", "%s::try_from_floats consists of the ladder only" % tname, not extra, "other statements at line(s) %s" % extra)


def run(ctx):
    f = ctx.facts
    src = deps.require_nar_dev_utils(ctx, ["src/floats.rs"])
    ctx.rule("V-DELEGATE", "blanket EvidentNumber impl: is_valid = is_in_01, try_validate = try_validate_01, validate = validate_01; in the "
             "pinned nar_dev_utils source validate_01 = try_validate_01().unwrap(), try_validate_01 = match is_in_01 {true=>Ok,false=>Err}, "
             "is_in_01 = (0.0..=1.0).contains -- hence panics <=> Err <=> !valid <=> !(0<=x<=1); NaN and infinities rejected")
    text = open(os.path.join(src, "src/floats.rs"), encoding="utf-8").read()
    code = "\n".join(l for l in text.split("\n") if not l.strip().startswith("//"))
    flat = re.sub(r"\s+", " ", code)
    ctx.ob("V-DELEGATE", "dep is_in_01 = (0.0..=1.0).contains(self)", "fn is_in_01(&self) -> bool { (0.0..=1.0).contains(self) }" in flat, "pinned source differs")
    ctx.ob("V-DELEGATE", "dep try_validate_01 = match is_in_01 {true => Ok(self), false => Err(..)}",
           re.search(r"fn try_validate_01\(&self\) -> Result<&Self, &str> \{ match self\.is_in_01\(\) \{ true => Ok\(self\), false => Err\(", flat) is not None, "pinned source differs")
    ctx.ob("V-DELEGATE", "dep validate_01 = try_validate_01().unwrap()", "fn validate_01(&self) -> &Self { self.try_validate_01().unwrap() }" in flat, "pinned source differs")
    for nm, target in (("is_valid", "is_in_01"), ("try_validate", "try_validate_01"), ("validate", "validate_01")):
        its = [it for p, it in f.hir.items() if it["name"] == nm and "impl_num_float" in p]
        if len(its) != 1:
            raise AnchorMissing("blanket EvidentNumber::%s" % nm)
        ctx.fn(its[0])
        b = hir.last_expr(its[0]["body"])
        ok = b["k"] == "MethodCall" and (b.get("def") or "").endswith("ZeroOneFloat::" + target) and field_path(b["recv"]) == ("self",) and not b["args"]
        ctx.ob("V-DELEGATE", "EvidentNumber::%s delegates to %s" % (nm, target), ok, "body: %s" % b["k"])
    # default methods of the trait (try_validate / validate in terms of is_valid) if present
    ctx.rule("V-CTOR", "each f64 parameter of Truth/Budget::new_* flows through exactly one validate_01 into the variant field of the same "
             "position; try_from_floats validates the k-th next() with try_validate_01 before use, returns the k-component variant when "
             "the k-th item is missing, and never reads surplus items")
    for tname, (adtp, mod) in TYPES.items():
        adt = f.adts.get(adtp)
        if adt is None:
            raise AnchorMissing(adtp)
        arity = {v["name"]: len(v["fields"]) for v in adt["variants"]}
        byar = {n: v for v, n in arity.items()}
        maxn = max(arity.values())
        ctx.floor("%s variants" % tname, len(arity), 3)
        for k in range(maxn + 1):
            it = f.hir_fn(NAMES[k], self_ty=adtp)
            ctx.fn(it)
            params = [p.get("name") for p in it["params"]]
            b = hir.through_lets(hir.last_expr(it["body"]), hir.let_env(it["body"]))       # named temporaries read through
            if k == 0:
                ok = b["k"] == "Path" and hir.variant_of(b["path"]) == byar[0]
                ctx.ob("V-CTOR", "%s::%s" % (tname, NAMES[k]), ok, "")
                continue
            ok = b["k"] == "Call" and strip(b["f"])["k"] == "Path" and hir.variant_of(strip(b["f"])["path"]) == byar[k] and len(params) == k
            got = [validated_param(a, "validate_01") for a in b.get("args", [])] if ok else None
            ctx.ob("V-CTOR", "%s::%s" % (tname, NAMES[k]), ok and got == params, "builds %s from %s; parameters %s" % (byar.get(k), got, params))
        v_ladder(ctx, tname, adtp, maxn)

    ctx.rule("K-ACCESSOR", "accessor k returns field k unchanged for exactly the variants with more than k components and panics otherwise; "
             "the short aliases delegate to them")
    acc = {"Truth": [("get_frequency", 0), ("get_confidence", 1)], "Budget": [("priority", 0), ("duality", 1), ("quality", 2)]}
    alias = {"Truth": [("f", "frequency"), ("c", "confidence")], "Budget": [("p", "priority"), ("d", "duality"), ("q", "quality")]}
    for tname, (adtp, mod) in TYPES.items():
        adt = f.adts[adtp]
        arity = {v["name"]: len(v["fields"]) for v in adt["variants"]}
        for nm, k in acc[tname]:
            its = [it for p, it in f.hir.items() if it["name"] == nm and (it.get("impl") or {}).get("self_ty") == adtp]
            if len(its) != 1:
                raise AnchorMissing("%s::%s" % (tname, nm))
            ctx.fn(its[0])
            # per variant: which leaf of the body is selected (psel: `match`, `if let`, `let else`, explicit variants or `_` alike)
            ret, pan, good = set(), set(), True
            for v in arity:
                binds = {}
                try:
                    leaf = strip(psel.select(its[0]["body"], {"self"}, v, binds=binds))
                except Unrecognised as u:
                    ctx.unrecognised("K-ACCESSOR", "%s::%s %s" % (tname, nm, v), u.what)
                    good = False
                    continue
                if leaf["k"] == "Block" and not [s_ for s_ in leaf.get("stmts", []) if s_["k"] != "Item"] and leaf.get("expr") is not None:
                    leaf = strip(leaf["expr"])
                if leaf["k"] == "Unary" and leaf["op"] == "*" and field_path(leaf["e"]) and len(field_path(leaf["e"])) == 1 and binds.get(field_path(leaf["e"])[0]) == k:
                    ret.add(v)
                elif _panics(leaf):
                    pan.add(v)
                else:
                    good = False
            want = {v for v, n in arity.items() if n > k}
            ctx.ob("K-ACCESSOR", "%s::%s" % (tname, nm), good and ret == want and pan == set(arity) - want,
                   "returns field %d for %s (expected %s), panics for %s" % (k, sorted(ret), sorted(want), sorted(pan)))
        for a, target in alias[tname]:
            its = [it for p, it in f.hir.items() if it["name"] == a and (it.get("impl") or {}).get("self_ty") == adtp and not (it.get("impl") or {}).get("trait")]
            if len(its) != 1:
                raise AnchorMissing("%s::%s" % (tname, a))
            b = hir.last_expr(its[0]["body"])
            ok = b["k"] == "MethodCall" and b["method"] == target and field_path(b["recv"]) == ("self",)
            ctx.ob("K-ACCESSOR", "%s::%s -> %s" % (tname, a, target), ok, "")
    for nm, target in (("frequency", "get_frequency"), ("confidence", "get_confidence")):
        its = [it for p, it in f.hir.items() if it["name"] == nm and p.endswith("EvidentValue::" + nm)]
        if len(its) != 1:
            raise AnchorMissing("EvidentValue::%s" % nm)
        b = hir.last_expr(its[0]["body"])
        ctx.ob("K-ACCESSOR", "EvidentValue::%s -> %s" % (nm, target), b["k"] == "MethodCall" and b["method"] == target and field_path(b["recv"]) == ("self",), "")
    # setters: set_frequency writes field 0 of exactly the variants that have one, set_confidence field 1; otherwise panic
    for nm, k in (("set_frequency", 0), ("set_confidence", 1)):
        its = [it for p_, it in f.hir.items() if it["name"] == nm and (it.get("impl") or {}).get("self_ty") == TYPES["Truth"][0]]
        if len(its) != 1:
            raise AnchorMissing("Truth::%s" % nm)
        ctx.fn(its[0])
        pn = [q["name"] for q in its[0]["params"] if q["k"] == "Binding" and q["name"] != "self"]
        wr, pan, good = set(), set(), True
        arity = {v["name"]: len(v["fields"]) for v in f.adts[TYPES["Truth"][0]]["variants"]}
        for v in arity:
            binds = {}
            try:
                leaf = strip(psel.select(its[0]["body"], {"self"}, v, binds=binds))
            except Unrecognised as u:
                ctx.unrecognised("K-ACCESSOR", "Truth::%s %s" % (nm, v), u.what)
                good = False
                continue
            asg = [n_ for n_ in hir.walk(leaf) if n_.get("k") == "Assign"]
            if len(asg) == 1 and not _panics(leaf):
                b = asg[0]
                l_, r_ = strip(b["l"]), strip(b["r"])
                okb = l_["k"] == "Unary" and field_path(l_["e"]) and len(field_path(l_["e"])) == 1 and binds.get(field_path(l_["e"])[0]) == k \
                    and r_["k"] == "Unary" and field_path(r_["e"]) == (pn[0],)
                good = good and okb
                wr.add(v)
            elif _panics(leaf) and not asg:
                pan.add(v)
            else:
                good = False
        want = {v for v, n in arity.items() if n > k}
        ctx.ob("K-ACCESSOR", "Truth::%s writes field %d of exactly %s" % (nm, k, sorted(want)), good and wr == want and pan == set(arity) - want,
               "writes for %s; panics for %s" % (sorted(wr), sorted(pan)))
    # ---- V-ROOT: shape of the n-th root (the numeric law itself stays undecided)
    ctx.rule("V-ROOT", "structural necessary condition of `root(n) of a valid number is valid`: the blanket impl computes "
             "Self::from(self.into().powf(1.0 / (n as FloatPrecision))) -- the exponent is the reciprocal of n converted DIRECTLY to the float type "
             "(a narrowing integer cast such as `n as i32` wraps for large n and makes the exponent negative: seed c13-f), base and result pass "
             "through into()/from() only")
    rt = [it for p_, it in f.hir.items() if it["name"] == "root" and "impl_num_float" in p_]
    if len(rt) != 1:
        raise AnchorMissing("blanket EvidentNumber::root")
    ctx.fn(rt[0])
    b = hir.last_expr(rt[0]["body"])
    ok = False
    why = "body is not from(into(self).powf(1.0 / (n as float)))"
    if b["k"] == "Call" and hir.callee_name(b) == "from" and len(b["args"]) == 1:
        pw = strip(b["args"][0])
        if pw["k"] == "MethodCall" and pw["method"] == "powf" and (pw.get("def") or "").endswith("f64>::powf") or (pw["k"] == "MethodCall" and pw["method"] == "powf" and "f32>::powf" in (pw.get("def") or "")):
            base = strip(pw["recv"])
            ex = strip(pw["args"][0])
            while ex["k"] == "Paren" if False else False:
                pass
            base_ok = base["k"] == "MethodCall" and base["method"] == "into" and field_path(base["recv"]) == ("self",)
            ex_ok = False
            if ex["k"] == "Binary" and ex["op"] in ("/", "Div"):
                l, r = strip(ex["l"]), strip(ex["r"])
                one = l["k"] == "Lit" and float(l["lit"]["v"]) == 1.0
                rt_p = [q["name"] for q in rt[0]["params"] if q.get("k") == "Binding" and q["name"] != "self"]       # root(self, n): n by position
                cast = r["k"] == "Cast" and len(rt_p) == 1 and field_path(r["e"]) == (rt_p[0],) and any(t in (r.get("ty") or "") for t in ("f64", "f32"))
                ex_ok = one and cast
                if not cast:
                    why = "the exponent's denominator is not `n as <float>` (found %s of type %s)" % (r["k"], r.get("ty"))
            ok = base_ok and ex_ok
    ctx.ob("V-ROOT", "root(self, n) = from(self.into().powf(1.0 / (n as FloatPrecision)))", ok, why)
    # naming-law lints over the modules this property lives in (sibling slips: truth<->budget, stamp<->punctuation, left<->right, swapped arguments)
    import roles as _roles
    _roles.rule_R_ROLE(ctx, modules=('api::data_structure::evidence_value', 'enum_narsese::sentence::truth', 'enum_narsese::task::budget', 'api::hyper_parameters'))
    _roles.rule_A_NAMES(ctx, modules=('api::data_structure::evidence_value', 'enum_narsese::sentence::truth', 'enum_narsese::task::budget', 'api::hyper_parameters'))
    _roles.rule_K_NAMES(ctx, only=("evidence_value",))
    ctx.undecided = ["`root(n)` of a valid number is valid as a floating-point law of powf (only its shape -- V-ROOT -- is decided)",
                     "the behaviour of (0.0..=1.0).contains on -0.0/subnormals is std's (trusted: -0.0 >= 0.0 holds)"]
    ctx.assumptions = ["RangeInclusive<f64>::contains(x) = 0.0 <= x && x <= 1.0 (false for NaN)", "Result::unwrap panics iff Err"]
    ctx.trusted = ["rustc HIR", "pinned nar_dev_utils 0.42.3 source (sha256 asserted)", "python rule layer"]
    return ("Constructor discipline by shape: every f64 reaching a Truth/Budget variant field passes exactly one 0-1 validation in its own "
            "position, on both the panicking and the fallible path (arity ladder with no surplus reads), the three validation entry points are "
            "definitionally equivalent (read from the pinned dependency, hash asserted), and accessors return their own field for exactly the "
            "variants that have it. The numeric law for root(n) is not decided.")
