"""C09 -- whitespace between tokens never changes what is parsed."""
import hir, mir, tables, wspace
from hir import strip, field_path
from facts import AnchorMissing

LEVEL = "other"


def rule_W_ENUM(ctx):
    f = ctx.facts
    # ---- W-ENUM
    ctx.rule("W-ENUM", "typestate over the enum parser (MIR, interprocedural summaries): a token-start read -- starts_with(non-space "
             "keyword or delimiter), the copula look-ahead, a branch on the current character, or a call of a function that does one of "
             "these first -- must not happen in state `a token was just consumed` on any path; skipping spaces, a failed space test and a "
             "restored cursor re-establish the good state; error/back-off paths (Err edges) are exempt")
    w = wspace.WEnum(ctx)
    viol = w.run()
    for p in w.bodies:
        ctx.fn(w.bodies[p])
    ctx.floor("enum parser functions analysed", len(w.bodies), 40)
    ctx.floor("token-start read sites", w.reads, 60)
    ctx.floor("space tests", w.space_tests, 5)
    ctx.extra["wenum_summaries"] = {w.bodies[p]["name"] + ("" if w.bodies[p]["defkind"] != "Closure" else "::closure"):
                                    {"needs_spaces_skipped_at_entry": s.needs, "exit_states": sorted(s.exit)}
                                    for p, s in sorted(w.sum.items()) if s.has_reads}
    n_ok = w.reads
    exc_used = []
    for key, (exc, site) in sorted(viol.items()):
        if exc:
            exc_used.append({"site": key, "reason": exc})
            continue
        ctx.ob("W-ENUM", key, False, "a space inserted at this token boundary is not skipped (or removing it glues tokens)", site)
    ctx.extra["wenum_listed_exceptions"] = exc_used
    ctx.ob("W-ENUM", "all other token-start reads (%d sites) happen with spaces skipped" % (w.reads - len(viol)), True)
    for key in sorted(k for k, (e, s) in viol.items() if not e)[:0]:
        pass
    for p, s in sorted(w.sum.items()):
        if s.has_reads:
            ctx.sample({"rule": "W-ENUM", "function": w.bodies[p]["name"], "needs_S_at_entry": s.needs, "exit": sorted(s.exit)})
    # one obligation per read-carrying function: no violation keyed to it
    for p, s in sorted(w.sum.items()):
        if not s.has_reads:
            continue
        nm = w.bodies[p]["name"] if w.bodies[p]["defkind"] != "Closure" else (p.split("::")[-2] + "::closure")
        bad = [k for k, (e, st) in viol.items() if not e and k.startswith(nm + " ")]
        if not bad:
            ctx.ob("W-ENUM", "%s: every token-start read is preceded by a space skip" % nm, True)



def rule_W_MACRO(ctx):
    """the inline-Narsese macros, read from one expansion each (the repo's cfg-guarded verification hooks, MANIFEST.hooks)"""
    f = ctx.facts
    ctx.rule("W-MACRO", "enum_nse!(literal) parses `literal.chars().filter(|c| !c.is_whitespace()).collect()` -- every Unicode whitespace character "
             "is deleted before the enum parser (which itself skips U+0020 only) sees the text, and nothing else is filtered; lexical_nse!(literal) "
             "hands the literal to the lexical parser unchanged (that parser strips whitespace itself: idealize_env / T-SPACE)")
    ee = [it for p, it in f.hir.items() if p.endswith("impl_enum::macros::__verif_enum_nse_expansion")]
    le = [it for p, it in f.hir.items() if p.endswith("impl_lexical::macros::__verif_lexical_nse_expansion")]
    if len(ee) != 1 or len(le) != 1:
        raise AnchorMissing("verification hooks __verif_enum_nse_expansion / __verif_lexical_nse_expansion (extraction runs with --cfg arcj137442_narsese_rs_verif)")
    ctx.fn(ee[0]); ctx.fn(le[0])
    pcs = hir.find_calls(ee[0]["body"], "parse_chars")
    ok, why = False, "no parse_chars call in the expansion"
    if len(pcs) == 1:
        a = strip(hir.call_args(pcs[0])[-1])
        chain = []
        while a["k"] == "MethodCall":
            chain.append(a)
            a = strip(a["recv"])
        names = [c["method"] for c in chain]
        why = "adapter chain %s over %s" % (names[::-1], a["k"])
        if names == ["collect", "filter", "chars"] and a["k"] == "Lit":
            cl = strip(chain[1]["args"][0])
            body = strip(cl["body"]) if cl["k"] == "Closure" else None
            par = [q.get("name") for q in cl.get("params", [])] if cl["k"] == "Closure" else []
            good = body is not None and body["k"] == "Unary" and body.get("op") in ("!", "Not") and strip(body["e"])["k"] == "MethodCall" \
                and (strip(body["e"]).get("def") or "").endswith("<impl char>::is_whitespace") and len(par) == 1 \
                and field_path(strip(body["e"])["recv"]) == (par[0],)
            ok = bool(good)
            why = "filter predicate is %s" % ((strip(body["e"]).get("def") if body is not None and body["k"] == "Unary" and strip(body["e"])["k"] == "MethodCall" else body and body["k"]),)
    ctx.ob("W-MACRO", "enum_nse! deletes exactly the Unicode whitespace characters before parsing", ok, why)
    lp = [c for c in hir.find_calls(le[0]["body"]) if (hir.callee(c) or "").endswith("impl_lexical::parser::parse")]
    ok = len(lp) == 1 and strip(hir.call_args(lp[0])[-1])["k"] == "Lit"
    ctx.ob("W-MACRO", "lexical_nse! hands the literal to the lexical parser unchanged", ok, "")


def run(ctx):
    f = ctx.facts
    rule_W_ENUM(ctx)
    import maps
    maps.rule_K_COPULAS(ctx)
    # token borders are char counts: a byte length moves a border for non-ASCII keywords, so the same tokens split differently
    maps.rule_U_CHARS(ctx)
    # ---- W-LEX
    ctx.rule("W-LEX", "every lexical entry that takes a &str idealises it first: the only char environment handed to parse/segment "
             "functions is the result of idealize_env(format, input); idealize_env filters out every char for which the format's "
             "is_for_parse holds when remove_spaces_before_parse is set")
    ide = f.hir_fn("idealize_env", module="impl_lexical::parser")
    ctx.fn(ide)
    # the test on remove_spaces_before_parse in any spelling (`match b {true, false}`, `if b {..} else {..}`, negated with exchanged branches)
    ok = False
    for n in hir.walk(ide["body"]):
        br = hir.as_branch(n) if n.get("k") in ("If", "Match") else None
        if not br:
            continue
        sc = field_path(br[0])
        if sc is None or sc[-1] != "remove_spaces_before_parse" or br[1] is None:
            continue
        fl = hir.find_calls(br[1], "filter")
        okk = len(fl) == 1
        if okk:
            c = strip(fl[0]["args"][0])
            okk = c["k"] == "Closure"
            if okk:
                b = strip(c["body"])
                okk = b["k"] == "Unary" and b["op"] == "!" and strip(b["e"])["k"] == "Call" and \
                    (field_path(strip(b["e"])["f"]) or ("",))[-1] == "is_for_parse"
        ok = okk
    ctx.ob("W-LEX", "idealize_env drops every is_for_parse char when remove_spaces_before_parse", ok, "")
    entries = 0
    for p, it in f.hir.items():
        if "impl_lexical::parser" not in p or it["defkind"] not in ("Fn", "AssocFn"):
            continue
        mb = f.mir.get(p)
        if not mb:
            continue
        str_params = [i for i in range(1, mb["arg_count"] + 1) if mb["locals"][i]["ty"] == "&str"]
        if any(mb["locals"][i]["ty"] == "&[char]" for i in range(1, mb["arg_count"] + 1)):
            continue        # already works on an environment: its &str parameter is a message / keyword, not the input text
        if not str_params or it["name"] == "idealize_env":
            continue
        g = mir.cfg(mb)
        env_calls = []
        for bi, t in g.calls():
            cal = mir.callee_path(t)
            if cal in f.mir and "impl_lexical::parser" in cal and f.mir[cal]["name"] != "idealize_env":
                for ai, a in enumerate(t["args"]):
                    ty = f.mir[cal]["locals"][ai + 1]["ty"] if ai + 1 <= f.mir[cal]["arg_count"] else ""
                    if ty == "&[char]":
                        env_calls.append((t, a))
        if not env_calls:
            continue   # pure forwarder of the &str
        entries += 1
        ctx.fn(it)
        for t, a in env_calls:
            r, pth = g.resolve_operand(a)
            # through Deref of the Vec<char>
            ok = False
            cur = r
            for _ in range(4):
                if cur[0] == "call" and mir.callee_name(cur[1]) == "idealize_env":
                    ia = cur[1]["args"]
                    r2, p2 = g.resolve_operand(ia[1])
                    ok = r2 == ("arg", str_params[0])
                    break
                if cur[0] == "call" and mir.callee_name(cur[1]) in ("deref", "as_slice", "borrow", "as_ref"):
                    cur = g.resolve_operand(cur[1]["args"][0])[0]
                    continue
                break
            ctx.ob("W-LEX", "%s: %s receives idealize_env(format, input)" % (it["name"], mir.callee_name(t)), ok,
                   "environment argument is %s" % g.path_s(a), "%s:%s" % (it["span"]["file"], t["line"]))
    ctx.floor("lexical &str entries that build an environment", entries, 2)

    # ---- W-TABLE
    ctx.rule("W-TABLE", "all three lexical tables: remove_spaces_before_parse = true and is_for_parse = char::is_whitespace (every Unicode "
             "whitespace); all three enum tables: the space keyword for parsing is \" \"")
    T = tables.Tables(ctx)
    for name in T.names:
        sp = T.lex[name]["space"]
        ctx.ob("W-TABLE", "lexical %s remove_spaces_before_parse" % name, sp.get("remove_spaces_before_parse") is True, "%s" % sp.get("remove_spaces_before_parse"))
        ctx.ob("W-TABLE", "lexical %s is_for_parse = char::is_whitespace" % name,
               (sp.get("is_for_parse") or {}).get("fn") == "std::char::methods::<impl char>::is_whitespace", "%s" % sp.get("is_for_parse"))
        ctx.ob("W-TABLE", "enum %s space.parse" % name, T.enum[name]["space"]["parse"] == " ", "%r" % T.enum[name]["space"]["parse"])

    # a trailing space after a bare atom must not change the result: it did when the copula look-ahead accepted a truncated copula at the end of input (D9)
    import fullmatch
    fullmatch.rule_P_FULLMATCH(ctx)
    # a bare term that ends in an identifier-only stamp/truth keyword (Han) must reach the term segmenter whole (D11)
    import suffix
    suffix.rule_S_SUFFIX(ctx, T)
    # removing the space between a name and a copula must not change the token boundary
    tables.rule_T_JUXTAPOSE(ctx, T, models=("enum", "lex"), only_written=tables.emitted_copula_fields(ctx))
    # parser state: any field beyond the reviewed ones is unmodelled state (seed c06-e: an atom cache keyed by the bare name; c09-f: a stale
    # copula index surviving reset_to)
    import c08 as _c08
    _c08.rule_S_FIELDS(ctx)
    # the enum parser's productions: which keyword is tested / skipped / handed to which sub-parser, which slot is filled (P-SKELETON), in terms of
    # cursor primitives with exactly their reviewed meaning (P-PRIM)
    import pskel as _pskel
    _pskel.rule_P_PRIM(ctx)
    _pskel.rule_P_SKELETON(ctx)
    # naming-law lints over the modules this property lives in (sibling slips: truth<->budget, stamp<->punctuation, left<->right, swapped arguments)
    import roles as _roles
    _roles.rule_R_ROLE(ctx, modules=('conversion::string::impl_enum::parser', 'conversion::string::impl_lexical::parser', 'conversion::string::impl_enum::macros', 'conversion::string::impl_lexical::macros'))
    _roles.rule_A_NAMES(ctx, modules=('conversion::string::impl_enum::parser', 'conversion::string::impl_lexical::parser', 'conversion::string::impl_enum::macros', 'conversion::string::impl_lexical::macros'))
    import lskel as _lskel
    _lskel.rule_L_SKELETON(ctx, which=('lexical',), floor=10)
    import tables as _t3
    _t3.rule_T_SPACE(ctx, _t3.Tables(ctx), models=("enum", "lex"))
    rule_W_MACRO(ctx)
    ctx.undecided = ["that removing ALL spaces never glues two tokens for every value (the copula look-ahead and identifier classes make "
                     "this value-dependent)", "the macro's whitespace stripping is an instance of `remove all spaces`: W-MACRO decides which characters it strips, the effect on the parse is the clause above"]
    ctx.assumptions = ["the flag correlation modelled by the typestate (ok = match result {Ok=>true,Err=>false}) is the only one the parser's macros create"]
    ctx.trusted = ["rustc MIR", "mirfacts driver", "python typestate engine incl. its two reviewed exceptions (parse_atom prefix+name)"]
    return ("Typestate analysis of the enum parser's 49 cursor-handling functions on MIR with interprocedural summaries: every one of the "
            "token-start read sites is shown to be reached only with spaces skipped (or on an error/back-off path), which is the necessary "
            "condition for `inserting spaces at a token boundary never matters`; for the lexical pipeline the must-pass-through rule shows "
            "every &str entry idealises its input with the whitespace filter, and the tables configure that filter as char::is_whitespace.")
