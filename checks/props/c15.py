"""C15 -- term / sentence / task classification and conversions are lossless."""
import itertools
import hir, mir, maps
from hir import strip, field_path, Unrecognised
from facts import AnchorMissing

LEVEL = "other"
SLOTS = ["budget", "term", "punctuation", "stamp", "truth"]


def opt_pat_matches(p, present):
    """does an Option pattern match a Some(present=True)/None value?"""
    k = p["k"]
    if k == "Binding" and p.get("sub"):
        return opt_pat_matches(p["sub"], present)
    if k in ("Wild", "Binding"):
        return True
    if k in ("Ref",):
        return opt_pat_matches(p["pat"], present)
    vs = hir.pat_variants(p)
    if vs == {"Some"}:
        return present
    if vs == {"None"}:
        return not present
    raise Unrecognised("option pattern")


def spec(a):
    if not a["term"]:
        return "error"
    if a["punctuation"] and a["budget"]:
        return "task"
    if a["punctuation"]:
        return "sentence"
    return "term"


def classify_body(b):
    names = {hir.callee_name(c) for c in hir.find_calls(b)}
    vs = set()
    for n in hir.walk(b):
        if n.get("k") == "Path" and n["path"].get("defkind", "").startswith("Ctor") and "NarseseValue" in (n["path"].get("parent") or ""):
            vs.add(hir.variant_of(n["path"]))
    if "Task" in vs:
        return "task"
    if "Sentence" in vs:
        return "sentence"
    if "Term" in vs:
        return "term"
    if "err" in names or (strip(b)["k"] == "Path" and hir.variant_of(strip(b)["path"]) == "None"):
        return "error"
    return "?"


KIND_OF_CALL = {"form_task": "task", "form_sentence": "sentence", "form_term": "term", "err": "error", "parse_error": "error"}


def kind_by_paths(ctx, item):
    """K-KIND for a transform_mid_result that is not one match: every path of the loop-free MIR body (rules/pathval.py) is followed with the
    presence of each slot it tests recorded as an assumption; the path's result -- the form_* / err call whose value is returned -- must be
    the kind the statement demands for EVERY completion of the slots the path did not test.  Returns (description, None) or (None, why)."""
    import pathval
    f = ctx.facts
    b = f.mir.get(item["path"])
    if b is None:
        return None, "no MIR body"

    def slot_of(v):
        # (*self).mid_result.<slot>
        if v[0] == "field" and v[2] in SLOTS and v[1][0] == "field" and v[1][2] == "mid_result":
            return v[2]
        return None
    res, why = pathval.paths(b, option_like=lambda v: slot_of(v) is not None)
    if res is None:
        return None, why
    n = 0
    for events, ret, nexts, valid, assumed in res:
        asg = {}
        for k_, val in assumed.items():
            if k_[0] == "discr" and slot_of(k_[1]):
                asg[slot_of(k_[1])] = (val == 1)
            else:
                return None, "a path depends on something other than slot presence (%s)" % (k_[0],)
        kinds = set()

        def scan(v):
            if not isinstance(v, tuple):
                return
            if v and v[0] == "agg" and isinstance(v[1], str) and v[1].endswith("NarseseValue") and v[2] in ("Task", "Sentence", "Term"):
                kinds.add(v[2].lower())
            elif v and v[0] == "agg" and v[2] == "Err":
                kinds.add("error")
            elif v and v[0] == "call" and v[1] in KIND_OF_CALL:
                kinds.add(KIND_OF_CALL[v[1]])
            for x in (v[1:] if v and isinstance(v[0], str) else v):
                if isinstance(x, tuple):
                    scan(x)
        scan(ret)
        # NarseseValue::Task(form_task(..)) names its kind twice; anything naming two different kinds (or none) is not read
        if len(kinds) != 1:
            return None, "a path returns %s" % pathval.show(ret)
        got = kinds.pop()
        free = [s_ for s_ in SLOTS if s_ not in asg]
        for bits in itertools.product([False, True], repeat=len(free)):
            full = dict(asg, **dict(zip(free, bits)))
            n += 1
            if spec(full) != got:
                return None, "slots %s -> %s, the statement demands %s" % ("".join(s_[0] if full[s_] else "-" for s_ in SLOTS), got, spec(full))
    if n != 32:
        return None, "%d of 32 slot assignments covered" % n
    return "decision table proven on %d paths by path-sensitive evaluation of the MIR body (32 slot assignments)" % len(res), None


def decision_table(ctx, name, m, slot_of_pos=None):
    """evaluate an ordered match over the five optional slots on all 32 presence assignments"""
    arms = []
    for a in m["arms"]:
        for p in hir.flatten_or(a["pat"]):
            arms.append((p, a))
    # the kind must be decided by slot PRESENCE alone: a guarded arm makes it depend on a slot's content (seed c11-h: `if !budget.is_empty()` on the
    # task arm turned `$$ <a --> b>.` into a sentence)
    guarded = [a.get("line") for a in m["arms"] if a.get("guard")]
    ctx.ob("K-KIND", "%s: no arm is guarded (the kind depends on which slots are present, not on what they hold)" % name, not guarded,
           "guarded arm(s) at line(s) %s" % guarded)
    bad = []
    for bits in itertools.product([False, True], repeat=5):
        asg = dict(zip(SLOTS, bits))
        got = None
        for p, a in arms:
            q = p
            while q["k"] in ("Ref",):
                q = q["pat"]
            ok = True
            if q["k"] == "Wild":
                pass
            elif q["k"] == "Tuple":
                n = len(slot_of_pos)
                pats = list(q["pats"])
                dd = q.get("ddpos")
                if dd is not None:
                    pats = pats[:dd] + [{"k": "Wild"}] * (n - len(pats)) + pats[dd:]
                for pos, sp in enumerate(pats):
                    if not opt_pat_matches(sp, asg[slot_of_pos[pos]]):
                        ok = False
            elif q["k"] == "Struct":
                for fd in q["fields"]:
                    if fd["name"] in asg and not opt_pat_matches(fd["pat"], asg[fd["name"]]):
                        ok = False
            else:
                raise Unrecognised("arm pattern %s" % q["k"])
            if ok:
                got = classify_body(a["body"])
                break
        if got != spec(asg):
            bad.append(("".join(s[0] if asg[s] else "-" for s in SLOTS), got, spec(asg)))
    ctx.ob("K-KIND", "%s decision table (32 slot assignments)" % name, not bad,
           "assignment(b,t,p,s,t)->got/expected: %s" % bad[:4])
    ctx.sample({"rule": "K-KIND", "function": name, "assignments_checked": 32, "mismatches": bad[:4]})


def run(ctx):
    f = ctx.facts
    rule_K_KIND(ctx)
    run_rest(ctx)
    return EXPL


def rule_K_KIND(ctx):
    f = ctx.facts
    ctx.rule("K-KIND", "result kind as a decision table over the five optional slots, identical in both parsers and equal to the statement: "
             "task <=> budget∧term∧punctuation; sentence <=> term∧punctuation∧¬budget; term <=> term∧¬punctuation; error <=> ¬term")
    tm = maps.enum_parser_fn(ctx, "transform_mid_result")
    try:
        m = hir.top_match(tm)
    except Unrecognised as u0:
        # not written as one match over the slots: decide the table by evaluating the paths of the MIR body (cached `is_some()` flags, early
        # returns, nested ifs ..); only a table PROVEN this way is accepted, anything else is the unrecognised idiom it was
        proof, why = kind_by_paths(ctx, tm)
        if proof:
            ctx.ob("K-KIND", "transform_mid_result scrutinises the five slots", True, proof)
            ctx.ob("K-KIND", "enum transform_mid_result: no arm is guarded (the kind depends on which slots are present, not on what they hold)", True, proof)
            ctx.ob("K-KIND", "enum transform_mid_result decision table (32 slot assignments)", True, proof)
            ctx.extra["k_kind_path_evaluation"] = proof
            m = None
        else:
            ctx.extra["k_kind_path_evaluation"] = "not proven: %s" % why
            raise u0
    if m is not None:
        sc = strip(m["scrut"])
        pos = []
        for e in sc["elems"]:
            p = field_path(e)
            pos.append(p[-1] if p else None)
        ctx.ob("K-KIND", "transform_mid_result scrutinises the five slots", sorted(pos) == sorted(SLOTS), "%s" % pos)
        if sorted(pos) == sorted(SLOTS):
            try:
                decision_table(ctx, "enum transform_mid_result", m, pos)
            except Unrecognised as u:
                ctx.unrecognised("K-KIND", "transform_mid_result", u.what)
    folds = [it for p, it in f.hir.items() if it["name"] == "fold" and "impl_lexical::parser" in p]
    if len(folds) != 1:
        raise AnchorMissing("lexical MidParseResult::fold")
    ctx.fn(folds[0])
    try:
        decision_table(ctx, "lexical MidParseResult::fold", hir.top_match(folds[0]))
    except Unrecognised as u:
        ctx.unrecognised("K-KIND", "lexical fold", u.what)
    # the slot a form_* uses is the slot the arm tested: form_task unwraps budget, form_sentence punctuation, form_term term (C04 P-CALLER)
    # an empty budget `$$` still fills the budget slot in both parsers
    cb = maps.enum_parser_fn(ctx, "consume_budget")
    ctx.ob("K-KIND", "enum consume_budget fills the slot for an empty budget too", len(hir.find_calls(cb["body"], "insert")) == 1
           and any(hir.callee_name(c) == "new_empty" for c in hir.find_calls(cb["body"])), "")



def run_rest(ctx):
    f = ctx.facts
    # whether the budget slot gets filled depends on the bracket borders being char counts: a byte length moves the scan start past a short
    # (empty / one-digit) budget whenever the bracket keyword is non-ASCII, and the task is then classified as a sentence (seeded c15-a)
    maps.rule_U_CHARS(ctx)

    ctx.rule("K-CAST", "cast_to_task = (sentence, empty budget); try_cast_to_sentence = Ok(sentence) iff the budget is empty, else Err(the "
             "unchanged task) -- for the enum model, the lexical model and the NarseseValue lift")
    for model, sty, tty in (("enum", "enum_narsese::sentence::Sentence", "enum_narsese::task::Task"),
                            ("lexical", "lexical::sentence::Sentence", "lexical::task::Task")):
        c = [it for p, it in f.hir.items() if it["name"] == "cast_to_task" and (it.get("impl") or {}).get("self_ty") == sty]
        t = [it for p, it in f.hir.items() if it["name"] == "try_cast_to_sentence" and (it.get("impl") or {}).get("self_ty") == tty]
        if len(c) != 1 or len(t) != 1:
            raise AnchorMissing("%s cast impls" % model)
        ctx.fn(c[0]); ctx.fn(t[0])
        b = strip(hir.through_lets(hir.last_expr(c[0]["body"]), hir.let_env(c[0]["body"])))          # named temporaries read through
        ok = False
        if model == "enum":
            if b["k"] == "Call" and hir.callee_name(b) == "new" and len(b["args"]) == 2:
                a1 = strip(b["args"][1])
                ok = field_path(b["args"][0]) == ("self",) and a1["k"] == "Path" and hir.variant_of(a1["path"]) == "Empty"
        else:
            if b["k"] == "Struct":
                fl = {x["name"]: x["expr"] for x in b["fields"]}
                emp = maps.vec_macro_elems(fl.get("budget", {"k": "?"})) if "budget" in fl else None
                ok = field_path(fl.get("sentence", {"k": "?"})) == ("self",) and emp == []
        ctx.ob("K-CAST", "%s cast_to_task = (self, empty budget)" % model, ok, "")
        # one two-way decision on budget.is_empty(), in any spelling (if / bool match / guard clause with early return)
        tr = hir.two_results(t[0]["body"])
        ok = False
        if tr is not None:
            lets_t = hir.let_env(t[0]["body"])
            cnd, th, el = strip(tr[0]), strip(hir.through_lets(tr[1], lets_t)), strip(hir.through_lets(tr[2], lets_t))
            bud = "1" if model == "enum" else "budget"
            sen = "0" if model == "enum" else "sentence"
            okc = cnd["k"] == "MethodCall" and cnd["method"] == "is_empty" and field_path(cnd["recv"]) == ("self", bud)
            okt = th["k"] == "Call" and hir.callee_name(th) == "Ok" and field_path(th["args"][0]) == ("self", sen)
            oke = el["k"] == "Call" and hir.callee_name(el) == "Err" and field_path(el["args"][0]) == ("self",)
            ok = okc and okt and oke
        ctx.ob("K-CAST", "%s try_cast_to_sentence" % model, ok, "expected `match budget.is_empty() {true => Ok(sentence), false => Err(self)}`")
    ie = f.hir_fn("is_empty", self_ty="enum_narsese::task::budget::Budget")
    b = hir.last_expr(ie["body"])
    ok = b["k"] == "Match" and {v for v, a, p in hir.arms_by_variant(b) if strip(a["body"])["k"] == "Lit" and strip(a["body"])["lit"]["v"] is True} == {"Empty"}
    ctx.ob("K-CAST", "Budget::is_empty <=> Budget::Empty", ok, "")
    # NarseseValue lift
    NV = "api::data_structure::narsese_value::NarseseValue<Term, Sentence, Task>"
    lift = [it for p, it in f.hir.items() if it["name"] == "try_cast_to_sentence" and (it.get("impl") or {}).get("self_ty") == NV]
    if len(lift) != 1:
        raise AnchorMissing("NarseseValue::try_cast_to_sentence")
    ctx.fn(lift[0])
    m = hir.top_match(lift[0])
    res = {}
    for v, arm, pat in hir.arms_by_variant(m):
        b = hir.last_expr(arm["body"])
        if v in ("Term", "Sentence"):
            res[v] = (hir.callee_name(b), field_path(b["args"][0]) if b["k"] == "Call" else None)
        elif v == "Task":
            binds = hir.pat_bindings(pat)
            okk = b["k"] == "Match" and strip(b["scrut"])["k"] == "MethodCall" and strip(b["scrut"])["method"] == "try_cast_to_sentence" \
                and field_path(strip(b["scrut"])["recv"]) == (binds[0],)
            inner = {}
            if okk:
                for v2, arm2, pat2 in hir.arms_by_variant(b):
                    bb = hir.last_expr(arm2["body"])
                    b2 = hir.pat_bindings(pat2)
                    if bb["k"] == "Call" and bb["args"] and strip(bb["args"][0])["k"] == "Call":
                        ic = strip(bb["args"][0])
                        inner[v2] = (hir.callee_name(bb), hir.variant_of(strip(ic["f"])["path"]), field_path(ic["args"][0]) == (b2[0],))
            if not okk and b["k"] == "MethodCall" and b["method"] == "map_err" and strip(b["recv"])["k"] == "MethodCall" and strip(b["recv"])["method"] == "map":
                # the same lift with combinators: task.try_cast_to_sentence().map(Self::Sentence).map_err(Self::Task)
                mp = strip(b["recv"])
                src = strip(mp["recv"])
                if src["k"] == "MethodCall" and src["method"] == "try_cast_to_sentence" and field_path(src["recv"]) == (binds[0],):
                    def ctor_of(a_):
                        a_ = strip(a_)
                        return hir.variant_of(a_["path"]) if a_["k"] == "Path" and a_["path"].get("defkind", "").startswith("Ctor") else None
                    inner = {"Ok": ("Ok", ctor_of(mp["args"][0]), True), "Err": ("Err", ctor_of(b["args"][0]), True)}
            res[v] = inner
    ctx.ob("K-CAST", "NarseseValue lift: Term -> Err(self)", res.get("Term") == ("Err", ("self",)), "%s" % (res.get("Term"),))
    ctx.ob("K-CAST", "NarseseValue lift: Sentence -> Ok(self)", res.get("Sentence") == ("Ok", ("self",)), "%s" % (res.get("Sentence"),))
    ctx.ob("K-CAST", "NarseseValue lift: Task -> Ok(Sentence(s)) / Err(Task(t))",
           res.get("Task") == {"Ok": ("Ok", "Sentence", True), "Err": ("Err", "Task", True)}, "%s" % (res.get("Task"),))

    ctx.rule("K-VALUE", "NarseseValue: is_X true for exactly X; try_into_X = Ok(payload) for exactly X else Err; from_X wraps into X; "
             "try_into_task_compatible: Task -> Ok(task), Sentence -> Ok(sentence.cast_to_task()), Term -> Err")
    NVG = "api::data_structure::narsese_value::NarseseValue<Term, Sentence, Task>"
    for x in ("Term", "Sentence", "Task"):
        lo = x.lower()
        it = f.hir_fn("is_" + lo, self_ty=NVG)
        b = hir.last_expr(it["body"])
        tr = {v for v, a, p in hir.arms_by_variant(b) if strip(a["body"])["k"] == "Lit" and strip(a["body"])["lit"]["v"] is True} if b["k"] == "Match" else None
        ctx.ob("K-VALUE", "is_%s" % lo, tr == {x}, "%s" % tr)
        it = f.hir_fn("try_into_" + lo, self_ty=NVG)
        m = hir.top_match(it)
        okv, errw = set(), False
        for v, arm, pat in hir.arms_by_variant(m):
            b = hir.last_expr(arm["body"])
            if v == "_":
                errw = b["k"] == "Call" and hir.callee_name(b) == "Err"
            elif b["k"] == "Call" and hir.callee_name(b) == "Ok" and field_path(b["args"][0]) == (hir.pat_bindings(pat)[0],):
                okv.add(v)
        ctx.ob("K-VALUE", "try_into_%s" % lo, okv == {x} and errw, "Ok for %s, fallback Err: %s" % (sorted(okv), errw))
        it = f.hir_fn("from_" + lo, self_ty=NVG)
        b = hir.last_expr(it["body"])
        ok = b["k"] == "Call" and hir.variant_of(strip(b["f"])["path"]) == x and field_path(b["args"][0]) == (it["params"][0].get("name"),)
        ctx.ob("K-VALUE", "from_%s" % lo, ok, "")
    it = f.hir_fn("try_into_task_compatible", self_ty=NVG)
    ctx.fn(it)
    m = hir.top_match(it)
    got = {}
    for v, arm, pat in hir.arms_by_variant(m):
        b = hir.last_expr(arm["body"])
        if v == "_":
            got["_"] = hir.callee_name(b) if b["k"] == "Call" else None
            continue
        bn = hir.pat_bindings(pat)[0]
        if b["k"] == "Call" and hir.callee_name(b) == "Ok":
            a = strip(b["args"][0])
            if field_path(a) == (bn,):
                got[v] = "payload"
            elif a["k"] == "MethodCall" and a["method"] == "cast_to_task" and field_path(a["recv"]) == (bn,):
                got[v] = "cast_to_task"
    ctx.ob("K-VALUE", "try_into_task_compatible", got == {"Task": "payload", "Sentence": "cast_to_task", "_": "Err"}, "%s" % got)

    ctx.rule("F-BUDGET-ALWAYS", "an empty budget is still written with both brackets (enum and lexical formatter), so a sentence cast to a task "
             "cannot print as a bare sentence; the task formatter always calls the budget formatter")
    ff = f.mir_fn("format_floats", module="impl_enum::formatter")
    g = mir.cfg(ff)
    pushes = [(bi, t) for bi, t in g.calls("push_str")]
    rets = [bi for bi in g.reach if ff["blocks"][bi]["term"]["k"] == "Return"]
    dom_all = [bi for bi, t in pushes if all(g.dominates(bi, r) for r in rets)]
    names = []
    for bi in dom_all:
        t = ff["blocks"][bi]["term"]
        r, p = g.resolve_operand(t["args"][1])
        names.append(ff["locals"][r[1]]["name"] if r[0] == "arg" else None)
    ctx.ob("F-BUDGET-ALWAYS", "enum format_floats pushes both brackets on every path", "bracket_left" in names and "bracket_right" in names, "unconditional pushes: %s" % names)
    fb = f.hir_fn("_format_budget", module="impl_enum::formatter")
    m = hir.top_match(fb)
    ok = all(len(hir.find_calls(arm["body"], "format_floats_budget")) == 1 for v, arm, pat in hir.arms_by_variant(m))
    ctx.ob("F-BUDGET-ALWAYS", "enum _format_budget: every variant (incl. Empty) goes through format_floats_budget", ok, "")
    ffb = f.hir_fn("format_floats_budget", module="impl_enum::formatter")
    c = hir.find_calls(ffb["body"], "format_floats")
    ok = len(c) == 1 and [maps.table_field(field_path(a)) for a in c[0]["args"][1:4]] == ["task.budget_brackets.0", "task.budget_brackets.1", "task.budget_separator"]
    ctx.ob("F-BUDGET-ALWAYS", "enum format_floats_budget passes the budget brackets", ok, "")
    lb = f.mir_fn("_format_budget", module="impl_lexical::formatter")
    g = mir.cfg(lb)
    rets = [bi for bi in g.reach if lb["blocks"][bi]["term"]["k"] == "Return"]
    fields = []
    for bi, t in g.calls("push_str"):
        if all(g.dominates(bi, r) for r in rets):
            r, p = g.resolve_operand(t["args"][1])
            fields.append(".".join(p[-3:]))
    ctx.ob("F-BUDGET-ALWAYS", "lexical _format_budget pushes both brackets on every path",
           fields == ["task.budget_brackets.0", "task.budget_brackets.1"], "unconditional pushes: %s" % fields)
    for mod in ("impl_enum::formatter", "impl_lexical::formatter"):
        ft = f.mir_fn("_format_task", module=mod)
        g = mir.cfg(ft)
        rets = [bi for bi in g.reach if ft["blocks"][bi]["term"]["k"] == "Return"]
        ok = any(all(g.dominates(bi, r) for r in rets) for bi, t in g.calls("_format_budget"))
        ctx.ob("F-BUDGET-ALWAYS", "%s _format_task always formats the budget" % mod.split("::")[0], ok, "")

    # kind(parse(format(sentence))) = sentence requires that the start of the sentence's term cannot be read as a budget
    import tables
    tables.rule_T_BUDGET_IDENT(ctx, tables.Tables(ctx), models=("enum", "lex"))
    # a bracketed-number alternative whose opening keyword can also start a term must not leave its slot filled when it backs off:
    # a stale (empty) budget turns the sentence into a task in the enum parser only (seeds c01-b/c, c15-d)
    import c01 as _c01, tables as _tables
    _c01.x_conflict(ctx, _tables.Tables(ctx))
    # parse_multi reuses one state: a budget slot surviving reset_to turns the next sentence into a task (seed c15-f; defect D4)
    import c08 as _c08
    _c08.rule_S_RESET(ctx)
    _c08.rule_S_FIELDS(ctx)
    # the enum parser's productions: which keyword is tested / skipped / handed to which sub-parser, which slot is filled (P-SKELETON), in terms of
    # cursor primitives with exactly their reviewed meaning (P-PRIM)
    import pskel as _pskel
    _pskel.rule_P_PRIM(ctx)
    _pskel.rule_P_SKELETON(ctx)
    # naming-law lints over the modules this property lives in (sibling slips: truth<->budget, stamp<->punctuation, left<->right, swapped arguments)
    import roles as _roles
    _roles.rule_R_ROLE(ctx, modules=('api::data_structure::narsese_value', 'api::data_structure::narsese_options', 'api::conversion', 'enum_narsese::task', 'enum_narsese::sentence', 'lexical::task', 'lexical::sentence', 'conversion::string::impl_enum::parser', 'conversion::string::impl_lexical::parser', 'conversion::string::impl_enum::formatter', 'conversion::string::impl_lexical::formatter'))
    _roles.rule_A_NAMES(ctx, modules=('api::data_structure::narsese_value', 'api::data_structure::narsese_options', 'api::conversion', 'enum_narsese::task', 'enum_narsese::sentence', 'lexical::task', 'lexical::sentence', 'conversion::string::impl_enum::parser', 'conversion::string::impl_lexical::parser', 'conversion::string::impl_enum::formatter', 'conversion::string::impl_lexical::formatter'))
    _roles.rule_K_NAMES(ctx, only=("narsese_options",))
    # every formatter function against its reviewed emission skeleton
    import emit as _emit
    _emit.rule_F_SKELETON_ALL(ctx)
    import lskel as _lskel
    _lskel.rule_L_SKELETON(ctx, which=('lexical',), floor=10)
    # whether the budget slot is found depends on the budget-content predicate of the lexical table (seed c15-p: `'0'..'9'` loses the digit 9
    # and a task is read as a sentence)
    import tables as _tb15
    _T15 = _tb15.Tables(ctx)
    _tb15.rule_T_PRED(ctx, _T15)
    # a stamp keyword missing from the lexical vocabulary hides the punctuation behind it: the sentence is read as a bare term (seed c15-x)
    _tb15.rule_T_AGREE(ctx, _T15)
    ctx.undecided = ["kind(parse(format(v))) = kind(v) for every value (runs into value-dependent parsing, see C01)"]
    ctx.assumptions = ["Vec::is_empty / matches! semantics of std"]
    ctx.trusted = ["rustc HIR/MIR", "mirfacts driver", "python rule layer"]
    return None


EXPL = ("The two kind-selection matches are evaluated exhaustively over all 32 presence assignments of the five optional slots and compared "
        "with the property's own truth table; cast and wrapper functions are decoded into variant tables; the must-pass-through rule shows an "
        "empty budget is always printed with its brackets in both formatters.")
