"""C04 -- the enum parser is total: every input string yields Ok or Err."""
import panics, progress, tables

LEVEL = "other"


def run(ctx):
    reach = panics.rule_P_TABLE(ctx, ["enum_parser"], 18)
    panics.rule_P_CURSOR(ctx)
    panics.rule_P_COUPLE(ctx)
    panics.rule_P_CALLER(ctx)
    panics.rule_P_VALID(ctx, reach, 6)
    # image constructor reached from the parser only with (0, empty vec)
    import mir
    f = ctx.facts
    ctx.rule("I-INDEX", "test_term_vec_for_image panics iff index > len; the enum parser calls new_image_* only with the constant index 0")
    pc = f.mir_fn("parse_compound", module="impl_enum::parser")
    g = mir.cfg(pc)
    n = 0
    for nm in ("new_image_extension", "new_image_intension"):
        for bi, t in g.calls(nm):
            n += 1
            a = t["args"][0]
            ctx.ob("I-INDEX", "parse_compound -> %s(0, _)" % nm, a["k"] == "Const" and a.get("v") == 0, "index argument %s" % g.path_s(a))
    ctx.floor("image constructor calls in parse_compound", n, 2)
    others = []
    for p in reach:
        b = f.mir[p]
        if b["name"] in ("parse_compound", "new_image_extension", "new_image_intension", "new_term_vec_for_image"):
            continue
        gg = mir.cfg(b)
        for nm in ("new_image_extension", "new_image_intension", "new_term_vec_for_image", "test_term_vec_for_image"):
            if gg.calls(nm):
                others.append("%s->%s" % (b["name"], nm))
    ctx.ob("I-INDEX", "no other image construction reachable from the enum parser", not others, "%s" % others)
    eadv = progress.rule_L_PROGRESS(ctx, reach, 10)
    progress.rule_L_RECURSION_enum(ctx, reach, eadv)
    progress.rule_L_ONCE_enum(ctx, reach, eadv)
    import maps
    maps.rule_U_CHARS(ctx, modules=("impl_enum::parser",))
    T = tables.Tables(ctx)
    tables.rule_T_NONEMPTY(ctx, T)
    # the enum parser's productions: which keyword is tested / skipped / handed to which sub-parser, which slot is filled (P-SKELETON), in terms of
    # cursor primitives with exactly their reviewed meaning (P-PRIM)
    import pskel as _pskel
    _pskel.rule_P_PRIM(ctx)
    _pskel.rule_P_SKELETON(ctx)
    # naming-law lints over the modules this property lives in (sibling slips: truth<->budget, stamp<->punctuation, left<->right, swapped arguments)
    import roles as _roles
    _roles.rule_R_ROLE(ctx, modules=('conversion::string::impl_enum::parser', 'enum_narsese::'))
    _roles.rule_A_NAMES(ctx, modules=('conversion::string::impl_enum::parser', 'enum_narsese::'))
    ctx.undecided = ["bounds obligations backed by a reviewed invariant rather than a machine proof (see `why` of each table entry)",
                     "stack depth: recursion is linear in bracket nesting (the property bounds nesting at 64)",
                     "termination/panic-freedom of external std/dependency callees not on the may-panic list (assumed total, listed in the evidence)"]
    ctx.assumptions = ["lengths and cursors <= isize::MAX (usize `+` cannot overflow)", "iterators driving `for` loops are finite",
                       "external callees not on the may-panic list are total"]
    ctx.trusted = ["rustc MIR (every index, slice, unwrap, panic!, overflow check is an explicit terminator)", "mirfacts driver",
                   "the reviewed table checks/tables/panic_sites.json", "python rule layer"]
    return ("Totality by exhaustive inventory: every panic edge in the 125 functions reachable from the 14 enum-parser entry points is "
            "enumerated from MIR; each must match a reviewed table entry whose operand expressions and required dominating guards are "
            "re-extracted and compared on every run, and is additionally backed by structural rules (cursor reads under can_consume, "
            "len_env coupled to env, unwraps under the caller's Some tests, range-checked constructor arguments, image index 0). Every loop "
            "and recursion cycle has a progress witness on all paths; progress keywords are non-empty in all three tables.")
