"""C16 -- Typst rendering is total, whitespace-normalised and unambiguous (necessary conditions)."""
import psel, hir, mir, panics, progress, eqhash, maps
from hir import strip, field_path
from facts import AnchorMissing

LEVEL = "other"
TYPST_T = "conversion::string::typst_formatter::definition::FormatterTypst"


def const_value(f, path):
    it = f.hir.get(path)
    if it is None:
        raise AnchorMissing("Typst constant %s" % path)
    return hir.eval_table(it["body"])


def run(ctx):
    f = ctx.facts
    # ---- totality
    reach = panics.rule_P_TABLE(ctx, ["typst"], 6)
    progress.rule_L_PROGRESS(ctx, reach, 2, enum=False)
    # the two index sites of format_term rely on statements having exactly two components
    gc = f.hir_fn("get_components", module="enum_narsese::term")
    m = hir.top_match(gc)
    st = eqhash.storage_map(f)
    catfn = eqhash.trait_fn(ctx, "get_category", "GetCategory")
    cat = eqhash.variant_value_map(ctx, catfn, "K-COMPONENTS")
    ctx.rule("K-COMPONENTS", "every Statement-category variant's get_components arm returns exactly two components (backs the [0]/[1] index sites)")
    import c14
    for v, arm, pat in hir.arms_by_variant(m):
        if cat.get(v) == "Statement":
            sh = c14.shape(arm["body"], hir.pat_bindings(pat))
            ctx.ob("K-COMPONENTS", "get_components %s yields two components" % v, sh == ("fields", [0, 1]), "%s" % (sh,))
    # atom names: get_atom_name_unchecked only for atoms (category Atom arm), through to_debug
    ft = f.hir_fn("format_term", module="typst_formatter::formatter_enum")
    ctx.fn(ft)
    fm = hir.top_match(ft) if False else [n for n in hir.walk(ft["body"]) if n.get("k") == "Match" and strip(n["scrut"])["k"] == "MethodCall" and strip(n["scrut"])["method"] == "get_category"]
    if len(fm) != 1:
        raise AnchorMissing("match on get_category in Typst format_term")
    ctx.rule("M-TYPST", "variant -> markup constant maps: per category the (feature string, brackets) pair is injective over variants; atoms pass "
             "their name through to_debug (quoted, escaped); the layout emits the connecter (unless set) and every component in each arity case")
    arms = {v: arm for v, arm, pat in hir.arms_by_variant(fm[0])}
    ok = set(arms) == {"Atom", "Compound", "Statement"}
    ctx.ob("M-TYPST", "format_term dispatches on the three categories", ok, "%s" % sorted(arms))
    if "Atom" in arms:
        c = hir.find_calls(arms["Atom"]["body"], "get_atom_name_unchecked")
        d = hir.find_calls(arms["Atom"]["body"], "to_debug")
        ctx.ob("M-TYPST", "atom name rendered through to_debug", len(c) == 1 and len(d) == 1 and strip(d[0]["recv"]) is not None
               and hir.callee_name(strip(d[0]["recv"])) == "get_atom_name_unchecked", "")
        others = [k for k, a in arms.items() if k != "Atom" and hir.find_calls(a["body"], "get_atom_name_unchecked")]
        ctx.ob("M-TYPST", "get_atom_name_unchecked only in the Atom arm", not others, "%s" % others)
    if "Compound" in arms:
        c = hir.find_calls(arms["Compound"]["body"], "get_components_including_placeholder")
        ctx.ob("M-TYPST", "compound components include the image placeholder", len(c) == 1, "")
    if "Statement" in arms:
        ts = hir.find_calls(arms["Statement"]["body"], "template_statement")
        ok = False
        if len(ts) == 1:
            a = ts[0]["args"]
            idx = []
            lets_st = hir.let_env(ft["body"])          # subject / predicate may be formatted into named temporaries first
            for x in (a[2], a[4]):
                x = hir.through_lets(x, lets_st)
                ii = [n for n in hir.walk(x) if n.get("k") == "Index"]
                idx.append(strip(ii[0]["idx"])["lit"]["v"] if ii and strip(ii[0]["idx"])["k"] == "Lit" else None)
            # the copula text is the value of _feature_string(term) (directly or through a named temporary)
            fl_ = hir.through_lets(a[3], hir.let_env(ft["body"]))
            ok = idx == [0, 1] and strip(fl_)["k"] == "MethodCall" and strip(fl_)["method"] == "_feature_string"
            # ... between the opening (brackets.0, 2nd argument) and the closing bracket (brackets.1, last argument) of _brackets_str(term)
            lets_ft = hir.let_env(ft["body"])

            def br_k(x):
                x = strip(hir.through_lets(x, lets_ft))
                if x["k"] == "Field" and strip(x["e"])["k"] == "MethodCall" and strip(x["e"])["method"] == "_brackets_str":
                    return x["name"]
                return None
            ok = ok and len(a) == 7 and br_k(a[1]) == "0" and br_k(a[6]) == "1"
        ctx.ob("M-TYPST", "statement = subject(component 0), copula, predicate(component 1)", ok, "")
    # constant maps
    fs = f.hir_fn("_feature_string", module="typst_formatter::formatter_enum")
    bs = f.hir_fn("_brackets_str", module="typst_formatter::formatter_enum")
    ctx.fn(fs); ctx.fn(bs)
    feat = {}
    for v, arm, pat in hir.arms_by_variant(hir.top_match(fs)):
        if v == "_":
            ctx.ob("M-TYPST", "_feature_string has no wildcard", False, "")
            continue
        b = strip(arm["body"])
        if b["k"] == "Path" and b["path"].get("res") == "def":
            feat[v] = const_value(f, b["path"]["def"])
        elif b["k"] == "Lit":
            feat[v] = b["lit"]["v"]
        else:
            ctx.unrecognised("M-TYPST", "_feature_string %s" % v, "arm is not a constant")
    ctx.floor("_feature_string arms", len(feat), 30)
    # variant -> bracket pair, read through the pattern-directed selector (psel): nested `match term { .. _ => match term.get_category() {..} }`
    # and `match (term, term.get_category()) { .. }` select the same leaves
    brk = {}
    bs_p = [q.get("name") for q in bs["params"] if q.get("k") == "Binding" and q.get("name") != "self"]
    for v in st:
        try:
            leaf = strip(psel.select(bs["body"], set(bs_p[:1]), v, {"get_category": cat.get(v)}))
        except hir.Unrecognised as u:
            ctx.unrecognised("M-TYPST", "_brackets_str %s" % v, u.what)
            continue
        got_name = None
        if leaf["k"] == "Path" and leaf["path"].get("res") == "def":
            brk[v] = tuple(const_value(f, leaf["path"]["def"]))
            got_name = leaf["path"]["def"].rsplit("::", 1)[-1]
        elif leaf["k"] == "Tup" and all(strip(x)["k"] == "Lit" for x in leaf["elems"]):
            brk[v] = tuple(strip(x)["lit"]["v"] for x in leaf["elems"])
            got_name = brk[v]
        else:
            ctx.unrecognised("M-TYPST", "_brackets_str %s" % v, "selected leaf is not a constant pair")
            continue
        # which pair a variant gets is part of the reviewed markup: the two sets their own, every other compound the compound pair, statements
        # the statement pair, atoms none (automut: `Compound => BRACKETS_COMPOUND` -> `Statement => BRACKETS_COMPOUND` shadows the next arm)
        want_name = "BRACKETS_EXT_SET" if v == "SetExtension" else "BRACKETS_INT_SET" if v == "SetIntension" else \
            {"Compound": "BRACKETS_COMPOUND", "Statement": "BRACKETS_STATEMENT", "Atom": ("", "")}.get(cat.get(v))
        ctx.ob("M-TYPST", "_brackets_str %s -> %s" % (v, want_name), got_name == want_name, "selects %s" % (got_name,))
    for c in ("Atom", "Compound", "Statement"):
        seen = {}
        for v in st:
            if cat.get(v) != c or v not in feat:
                continue
            key = (feat[v], brk[v])
            ctx.ob("M-TYPST", "%s markup distinct within %s" % (v, c), key not in seen, "same (feature, brackets) %r as %s" % (key, seen.get(key)))
            seen.setdefault(key, v)
    # feature strings of non-set compounds / statements non-empty (an empty one selects the set layout)
    for v in st:
        if cat.get(v) in ("Compound", "Statement") and not v.startswith("Set"):
            ctx.ob("M-TYPST", "%s has a non-empty connecter/copula" % v, bool(feat.get(v, "").strip()), "%r" % feat.get(v))
    # layout
    tc = f.hir_fn("template_compound", module="typst_formatter::formatter_enum")
    ctx.fn(tc)
    tcp = [q.get("name") for q in tc["params"]]
    if len(tcp) != 5:
        raise AnchorMissing("template_compound(out, brackets, connecter, components, separator)")
    P_BR, P_CON, P_COMP, P_SEP = tcp[1], tcp[2], tcp[3], tcp[4]           # by position, not by name
    collected = [st_["pat"]["name"] for st_ in strip(tc["body"])["stmts"] if st_["k"] == "Let" and st_["pat"]["k"] == "Binding" and st_.get("init")
                 and strip(st_["init"])["k"] == "MethodCall" and strip(st_["init"])["method"] == "collect"]
    V_STR = collected[0] if len(collected) == 1 else "strings"
    lm = [n for n in hir.walk(tc["body"]) if n.get("k") == "Match"]
    ok = len(lm) == 1
    if ok:
        arms_ = lm[0]["arms"]
        ok = len(arms_) == 3
        if ok:
            # every arm emits all components
            ok = all(len(hir.find_calls(a["body"], "template_components")) == 1 for a in arms_)
            # set arm: separator; binary arm: connecter as separator; general arm: push connecter first
            c0 = hir.find_calls(arms_[0]["body"], "template_components")[0]
            c1 = hir.find_calls(arms_[1]["body"], "template_components")[0]
            c2 = hir.find_calls(arms_[2]["body"], "template_components")[0]
            ok = ok and field_path(c0["args"][2]) == (P_SEP,) and field_path(c1["args"][2]) == (P_CON,) and field_path(c2["args"][2]) == (P_SEP,)
            pushes = [field_path(c["args"][0]) for c in hir.find_calls(arms_[2]["body"], "push_str")]
            ok = ok and pushes[:2] == [(P_CON,), (P_SEP,)]          # `connecter separator components` (automut: the separator push deleted)
            # the infix layout is for exactly TWO components (automut: `(2, _)` -> `(1, _)`)
            p1 = arms_[1]["pat"]
            lit2 = p1.get("k") == "Tuple" and p1["pats"] and p1["pats"][0].get("k") == "Expr" and strip(p1["pats"][0]["expr"]).get("k") == "Lit" \
                and strip(p1["pats"][0]["expr"])["lit"]["v"] == 2
            ok = ok and lit2
    pushes = [field_path(c["args"][0]) for c in hir.find_calls(tc["body"], "push_str")]
    ok = ok and pushes[0] == (P_BR, "0") and pushes[-1] == (P_BR, "1")
    ctx.ob("M-TYPST", "template_compound: three arity layouts, each emitting the connecter (unless set) and all components between the brackets", bool(ok), "")
    # order: the rendered components reach the join in the order the accessor yields them (images: with the placeholder at its index).
    # Nothing may reorder / drop them on the way: the collected vector is immutable and only asked for its length before it is consumed,
    # and format_term hands over accessor().into_iter().map(render) with no reordering adapter (seed c16-d sorted the strings)
    ORDER_NEUTRAL = {"len", "into_iter", "iter", "is_empty"}
    used = []
    mut_bind = False
    for n in hir.walk(tc["body"]):
        if n.get("k") == "MethodCall" and field_path(n["recv"]) == (V_STR,):
            used.append(n["method"])
    for st_ in strip(tc["body"])["stmts"]:
        if st_["k"] == "Let" and st_["pat"]["k"] == "Binding" and st_["pat"]["name"] == V_STR:
            mut_bind = "Mut" in (st_["pat"].get("mode") or "").split(",")[-1]
            init = strip(st_["init"])
            ok_init = init["k"] == "MethodCall" and init["method"] == "collect" and field_path(init["recv"]) == (P_COMP,)
            ctx.ob("M-TYPST", "template_compound: strings = components.collect() (nothing in between)", ok_init, "")
    ctx.ob("M-TYPST", "template_compound: the collected component strings are neither reordered nor mutated", set(used) <= ORDER_NEUTRAL and not mut_bind and "into_iter" in used,
           "methods called on the collected vector: %s%s" % (sorted(set(used)), "; the binding is mutable" if mut_bind else ""))
    ft_ = f.hir_fn("format_term", module="typst_formatter::formatter_enum")
    calls_tc = hir.find_calls(ft_["body"], "template_compound")
    ok_chain = False
    chain = []
    if len(calls_tc) == 1:
        e = strip(calls_tc[0]["args"][3])
        while e["k"] == "MethodCall":
            chain.append(e["method"])
            e = strip(e["recv"])
        ft_p = [q["name"] for q in ft_["params"] if q.get("k") == "Binding" and q["name"] != "self"]      # format_term(&self, out, term)
        ok_chain = chain[:-1] == ["map", "into_iter"] and chain[-1:] == ["get_components_including_placeholder"] and len(ft_p) == 2 and field_path(e) == (ft_p[1],)
    ctx.ob("M-TYPST", "format_term: components = term.get_components_including_placeholder().into_iter().map(render)", ok_chain, "adapter chain %s" % chain[::-1])
    # per-role distinctness of the constants
    ctx.rule("T-DISTINCT", "Typst constants of one role are pairwise distinct (prefixes, connecters, copulas, punctuations, non-eternal stamps, term bracket pairs)")
    defs = {}
    for p, it in f.hir.items():
        if "typst_formatter::definition::" in p and it["defkind"].startswith("Const"):
            try:
                defs[it["name"]] = hir.eval_table(it["body"])
            except hir.Unrecognised as u:
                ctx.unrecognised("T-DISTINCT", it["name"], u.what)
    ctx.floor("Typst constants", len(defs), 50)
    roles = {"TERM_PREFIX_": 7, "CONNECTER_": 12, "COPULA_": 13, "PUNCTUATION_": 4, "STAMP_": 5}
    for pre, n in roles.items():
        items = {k: v for k, v in defs.items() if k.startswith(pre)}
        ctx.floor("Typst %s constants" % pre, len(items), n)
        seen = {}
        for k, v in sorted(items.items()):
            ctx.ob("T-DISTINCT", "Typst %s" % k, v not in seen, "same markup %r as %s" % (v, seen.get(v)))
            seen.setdefault(v, k)
    tb = {k: tuple(v) for k, v in defs.items() if k in ("BRACKETS_COMPOUND", "BRACKETS_EXT_SET", "BRACKETS_INT_SET", "BRACKETS_STATEMENT")}
    ctx.ob("T-DISTINCT", "Typst term bracket pairs", len(tb) == 4 and len(set(tb.values())) == 4, "%s" % tb)
    # punctuation / stamp maps
    for fn_name, adt, prefix in (("format_punctuation", "enum_narsese::sentence::punctuation::Punctuation", "PUNCTUATION_"),
                                 ("format_stamp", "enum_narsese::sentence::stamp::Stamp", "STAMP_")):
        it = f.hir_fn(fn_name, module="typst_formatter::formatter_enum")
        ctx.fn(it)
        vs_ = [v["name"] for v in f.adts[adt]["variants"]]
        subj = set([q.get("name") for q in it["params"] if q.get("k") == "Binding" and q.get("name") != "self"][-1:])       # the value is the last parameter
        mm = [n for n in hir.walk(it["body"]) if n.get("k") == "Match" and "Desugar" not in n.get("source", "") and psel.value_of(n["scrut"], subj, "?", {})[0] != "unknown"]
        vm = {}
        for v in vs_:
            consts = set()
            for m_ in mm:
                try:
                    leaf = psel.select(m_, subj, v)
                except hir.Unrecognised as u:
                    ctx.unrecognised("M-TYPST", "%s %s" % (fn_name, v), u.what)
                    continue
                for n_ in hir.walk(leaf):
                    if n_.get("k") == "Path" and n_.get("path", {}).get("res") == "def" and n_["path"]["def"].rsplit("::", 1)[-1].startswith(prefix):
                        consts.add(n_["path"]["def"].rsplit("::", 1)[-1])
            if len(consts) == 1:
                vm[v] = consts.pop()
        vs = [v["name"] for v in f.adts[adt]["variants"]]
        ctx.ob("M-TYPST", "%s maps each variant to its own constant" % fn_name,
               set(vm) == set(vs) and len(set(vm.values())) == len(vs) and all(c.startswith(prefix) for c in vm.values()), "%s" % vm)
    # ---- normalisation
    ctx.rule("F-POST", "in each of the seven FormatTo<&FormatterTypst> impls every path to return passes through post_process_whitespace as the "
             "last mutation of the returned string; post_process_whitespace works on the trimmed input and pushes a char only if it and its "
             "predecessor are not both whitespace")
    n = 0
    for p, b in sorted(f.mir.items()):
        imp = b.get("impl") or {}
        if b["name"] != "format_to" or "typst_formatter" not in p:
            continue
        n += 1
        ctx.fn(b)
        g = mir.cfg(b)
        rets = [bi for bi in g.reach if b["blocks"][bi]["term"]["k"] == "Return"]
        pp = g.calls("post_process_whitespace")
        ok = len(pp) == 1 and all(g.dominates(pp[0][0], r) for r in rets)
        why = "post_process_whitespace does not dominate the return"
        if ok:
            sl = g.resolve_operand(pp[0][1]["args"][0])
            after = g.reachable_from(pp[0][1]["target"])
            late = []
            for bi in after:
                t = b["blocks"][bi]["term"]
                if t["k"] == "Call" and not b["blocks"][bi]["cleanup"]:
                    late.append(mir.callee_name(t))
            ok = not late
            why = "calls after post-processing: %s" % late
            # the returned value is the post-processed string
            for r in rets:
                for s in b["blocks"][r]["stmts"]:
                    if s["k"] == "Assign" and s["place"]["local"] == 0 and not s["place"]["proj"]:
                        src = g.resolve_operand(s["rv"]["op"]) if s["rv"]["k"] == "Use" else None
                        if src is None or src[0] != sl[0]:
                            ok = False
                            why = "returned value is not the post-processed string"
        ctx.ob("F-POST", "%s::format_to" % (imp.get("self_ty") or "?").rsplit("::", 1)[-1], ok, why, "%s:%s" % (b["span"]["file"], b["span"]["line"]))
    ctx.floor("Typst FormatTo impls", n, 7)
    pw = f.hir_fn("post_process_whitespace", module="typst_formatter::definition")
    ctx.fn(pw)
    trims = hir.find_calls(pw["body"], "trim")
    lets_pw = hir.let_env(pw["body"])

    def idx_of(e):
        e = strip(hir.through_lets(e, lets_pw))
        if e["k"] == "MethodCall" and e["method"] == "is_whitespace":
            r = strip(hir.through_lets(e["recv"], lets_pw))
            if r["k"] == "Index":
                return r["idx"]
        return None

    def prev_and_cur(x, y):
        """x tests chars[i - 1], y tests chars[i] (same i)"""
        i0, i1 = idx_of(x), idx_of(y)
        if i0 is None or i1 is None:
            return False
        a, b_ = strip(i0), strip(i1)
        return a["k"] == "Binary" and a["op"] in ("-", "Sub") and field_path(a["l"]) == field_path(b_) and field_path(b_) is not None \
            and strip(a["r"])["k"] == "Lit" and strip(a["r"])["lit"]["v"] == 1
    # the skip decision, spelled as `match (prev_ws, cur_ws) { (true, true) => {}, _ => push }` or as `if !(prev_ws && cur_ws) { push }`
    mm = [n for n in hir.walk(pw["body"]) if n.get("k") == "Match" and strip(n["scrut"])["k"] == "Tup"]
    ok = False
    if len(trims) == 1 and len(mm) == 1:
        sc = strip(mm[0]["scrut"])["elems"]
        ok = len(sc) == 2 and prev_and_cur(sc[0], sc[1])
        arms_ = mm[0]["arms"]
        ok = ok and len(arms_) == 2
        if ok:
            p0 = arms_[0]["pat"]
            both = p0["k"] == "Tuple" and [hir.bool_pat(x) for x in p0["pats"]] == [True, True]
            ok = both and not hir.find_calls(arms_[0]["body"]) and arms_[1]["pat"]["k"] == "Wild" and len(hir.find_calls(arms_[1]["body"], "push")) == 1
    elif len(trims) == 1 and not mm:
        for n in hir.walk(pw["body"]):
            br = hir.as_branch(n) if n.get("k") == "If" else None
            if not br:
                continue
            c = strip(hir.through_lets(br[0], lets_pw))
            if c["k"] == "Binary" and c["op"] in ("&&", "And") and prev_and_cur(c["l"], c["r"]):
                # both whitespace -> nothing is written; otherwise exactly one push
                t_calls = hir.find_calls(br[1]) if br[1] is not None else []
                e_push = hir.find_calls(br[2], "push") if br[2] is not None else []
                ok = not t_calls and len(e_push) == 1
    ctx.ob("F-POST", "post_process_whitespace: trims, then drops a char only when it and its predecessor are both whitespace", bool(ok), "")
    # the first character of the trimmed text is always kept: it is pushed before the loop that starts at index 1 (automut: that push deleted)
    first_push = [c for c in hir.find_calls(pw["body"], "push") if strip(c["args"][0])["k"] == "Index"
                  and strip(strip(c["args"][0])["idx"]).get("k") == "Lit" and strip(strip(c["args"][0])["idx"])["lit"]["v"] == 0]
    ctx.ob("F-POST", "post_process_whitespace keeps the first character (push(chars[0]) before the loop)", len(first_push) == 1, "")
    asg = [n for n in hir.walk(pw["body"]) if n.get("k") == "Assign"]
    # ... into the parameter, from the local the kept characters were pushed to (binders by identity, not by name)
    pushed = {field_path(c["recv"]) for c in hir.find_calls(pw["body"], "push") if field_path(c["recv"]) and len(field_path(c["recv"])) == 1}
    par = [q["name"] for q in pw.get("params", []) if q.get("k") == "Binding"]
    ctx.ob("F-POST", "post_process_whitespace writes the result back (*s = result)",
           len(asg) == 1 and len(pushed) == 1 and field_path(asg[0]["r"]) in pushed and len(par) == 1 and field_path(asg[0]["l"]) == (par[0],), "")
    # component order is preserved end to end (formatter, templates, parsers, fold, accessors)
    import maps as _maps
    _maps.rule_O_ORDER(ctx)
    # "equal values render identically": equality of truth / budget / stamp / sentence / task must be the derived structural one (bitwise on
    # the numbers the renderer prints with Display); a tolerant PartialEq makes 0.1+0.2 == 0.3 while the texts differ (seed c16-f)
    import eqhash as _eq
    _eq.rule_derived_eq(ctx)
    # ... and Term equality must be the reviewed semantic one: a coarser `==` makes terms equal that render differently (seed c16-v: `||`
    # in the image clause of PartialEq)
    _st16, _cap16 = _eq.rule_H_STORAGE(ctx)
    _eq.rule_H_EQSHAPE(ctx, _st16, _cap16)
    # naming-law lints over the modules this property lives in (sibling slips: truth<->budget, stamp<->punctuation, left<->right, swapped arguments)
    import roles as _roles
    _roles.rule_R_ROLE(ctx, modules=('conversion::string::typst_formatter', 'enum_narsese::'))
    _roles.rule_A_NAMES(ctx, modules=('conversion::string::typst_formatter', 'enum_narsese::'))
    import emit as _emit
    _emit.rule_F_SKELETON_ALL(ctx, floor=5, which=("typst", "template"))
    # the Typst renderer takes an image's components from Term::get_components_including_placeholder (seed c16-k: placeholder index clamped)
    import lskel as _lskel
    _lskel.rule_L_SKELETON(ctx, which=('term',), floor=10)
    # the renderer reads a sentence's punctuation / truth / stamp / term through the Sentence accessors (seed c16-z: get_punctuation's Quest arm
    # returned Question, so a quest and a question rendered alike)
    import c01 as _c01
    _c01.rule_K_PUNCT_accessors(ctx)
    ctx.undecided = ["injectivity of rendering over all pairs of values (only per-role/per-category distinctness and the layout rule are decided)",
                     "rendering equality up to the order of unordered components (depends on set iteration order)"]
    ctx.assumptions = ["ToDebug on the atom name yields a quoted, escaped string", "terms are finite trees (the formatter recurses on components)"]
    ctx.trusted = ["rustc HIR/MIR", "mirfacts driver", "reviewed table for the 6 index sites", "python rule layer"]
    return ("Totality of the Typst renderer by panic-edge inventory with reviewed guards (6 index sites) and iterator-driven loops; normalisation "
            "by a must-pass-through rule on all seven FormatTo impls plus a shape check of post_process_whitespace; necessary conditions of "
            "unambiguity: per-role distinct markup constants, injective (feature, brackets) pairs per category, a layout that always emits the "
            "connecter and every component. Injectivity over all value pairs is not decided.")
