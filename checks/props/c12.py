"""C12 -- values produced by parsing or folding are always well-formed."""
import hir, mir, panics, progress, maps, guards as G, tables
from hir import strip, field_path
from facts import AnchorMissing

LEVEL = "other"
TRUTH = "enum_narsese::sentence::truth::Truth"
BUDGET = "enum_narsese::task::budget::Budget"
TERM = maps.TERM_ADT


def reach_avoiding_edges(g, src, dst, good_edges):
    """is dst reachable from src without traversing any edge in good_edges (set of (from,to))?"""
    seen, st = set(), [src]
    while st:
        x = st.pop()
        if x == dst:
            return True
        if x in seen:
            continue
        seen.add(x)
        for s in g.succ[x]:
            if (x, s) not in good_edges:
                st.append(s)
    return False


def run(ctx):
    f = ctx.facts
    cg = mir.callgraph(f)
    reach_pf, _ = panics.scope_reach(ctx, ["enum_parser", "fold"])
    # ---- V-CONSTRUCT
    ctx.rule("V-CONSTRUCT", "who-may-construct: within everything reachable from the enum parser and the fold, aggregate constructions of "
             "Truth::{Single,Double} / Budget::{Single,Double,Triple} and stores into their fields occur only in new_single/new_double/"
             "new_triple, whose operands are validate_01 results (V-CTOR, C13); so every value the parser or fold returns has components in [0,1]")
    sites = []
    for p in sorted(reach_pf):
        b = f.mir[p]
        for bl in b["blocks"]:
            if bl["cleanup"]:
                continue
            for s in bl["stmts"]:
                if s["k"] != "Assign":
                    continue
                rv = s["rv"]
                if rv["k"] == "Aggregate" and rv.get("agg") == "Adt" and rv["adt"] in (TRUTH, BUDGET) and rv["ops"]:
                    sites.append((b, "aggregate %s::%s" % (rv["adt"].rsplit("::", 1)[-1], rv["variant"]), s))
                pr = s["place"]["proj"]
                if any(e["k"] == "Downcast" for e in pr):
                    of = [e for e in pr if e["k"] == "Field"]
                    if of and any(x in of[-1].get("of", "") for x in (TRUTH, BUDGET)):
                        sites.append((b, "field store", s))
    ok_names = {"new_single", "new_double", "new_triple"}
    n = 0
    for b, what, s in sites:
        n += 1
        derived = (b.get("impl") or {}).get("derived")
        ctx.ob("V-CONSTRUCT", "%s in %s" % (what, panics.fname(b, b["path"])), b["name"] in ok_names or bool(derived),
               "a truth/budget value with components is built outside the validating constructors", "%s:%s" % (b["span"]["file"], s["line"]))
    ctx.floor("truth/budget construction sites", n, 5)
    # constructors validate in position (same rule as C13 V-CTOR, checked here on MIR): each field operand = deref of validate_01(&param_k)
    for adtp in (TRUTH, BUDGET):
        for nm in sorted(ok_names):
            its = f.select(f.mir, nm, self_ty=adtp)
            if not its:
                continue
            b = its[0]
            ctx.fn(b)
            g = mir.cfg(b)
            for bl in b["blocks"]:
                for s in bl["stmts"]:
                    if s["k"] == "Assign" and s["rv"]["k"] == "Aggregate" and s["rv"].get("adt") == adtp:
                        good = True
                        for k, o in enumerate(s["rv"]["ops"]):
                            r, pth = g.resolve_operand(o)
                            okk = r[0] == "call" and mir.callee_name(r[1]) == "validate_01"
                            if okk:
                                r2, p2 = g.resolve_operand(r[1]["args"][0])
                                okk = r2 == ("arg", k + 1)
                            good = good and okk
                        ctx.ob("V-CONSTRUCT", "%s::%s fields = validate_01(param) in position" % (adtp.rsplit("::", 1)[-1], nm), good, "")
    panics.rule_P_VALID(ctx, reach_pf, 12)

    # ---- image index
    ctx.rule("I-INDEX", "Image aggregates only in new_image_* (after test_term_vec_for_image: index <= len); the only in-place index write "
             "(parse_compound) stores the position of the first placeholder after removing it (index <= remaining len); the fold goes "
             "through to_image_*_with_placeholder")
    import c10
    writers = set()
    for p in sorted(reach_pf):
        b = f.mir[p]
        for bl in b["blocks"]:
            for s in bl["stmts"]:
                if s["k"] != "Assign":
                    continue
                rv = s["rv"]
                if rv["k"] == "Aggregate" and rv.get("agg") == "Adt" and rv["adt"] == TERM and rv["variant"].startswith("Image"):
                    writers.add((b["name"], "aggregate", bool((b.get("impl") or {}).get("derived"))))
                if rv["k"] == "Ref" and rv["mut"]:
                    pr = rv["place"]["proj"]
                    if len(pr) >= 2 and pr[-2]["k"] == "Downcast" and pr[-2]["variant"].startswith("Image") and pr[-1]["k"] == "Field" and pr[-1]["idx"] == 0:
                        writers.add((b["name"], "mut-borrow of index", False))
    extra = sorted(w for w in writers if not (w[2] or (w[0] in ("new_image_extension", "new_image_intension") and w[1] == "aggregate")
                                              or (w[0] == "parse_compound" and w[1] == "mut-borrow of index")))
    ctx.ob("I-INDEX", "who-may-write the image index (parser/fold reach)", not extra, "%s" % extra)
    for nm in ("new_image_extension", "new_image_intension"):
        b = f.mir_fn(nm, module="enum_narsese::term")
        g = mir.cfg(b)
        tst = g.calls("new_term_vec_for_image")
        ok = len(tst) == 1 and g.resolve_operand(tst[0][1]["args"][0])[0] == ("arg", 1)
        ctx.ob("I-INDEX", "%s range-tests its index before building the image" % nm, ok, "")
    nv = f.mir_fn("new_term_vec_for_image", module="enum_narsese::term")
    g = mir.cfg(nv)
    ctx.ob("I-INDEX", "new_term_vec_for_image calls test_term_vec_for_image(index, &vec)", len(g.calls("test_term_vec_for_image")) == 1, "")
    tt = f.mir_fn("test_term_vec_for_image", module="enum_narsese::term")
    sym = G.Sym(tt)
    pg = []
    for kind, detail, bi, t in panics.panic_sites(tt):
        pg += ["%s = %s" % (e, v) for e, v in sym.guards(bi)]
    ctx.ob("I-INDEX", "test_term_vec_for_image panics exactly when index > len", pg == ["Lt(len(a2),a1) = true"], "panic condition: %s" % pg)
    # the enum parser's in-place write: covered by the C10 rule instance, re-evaluated here
    pti = maps.enum_parser_fn(ctx, "parse_terms_with_image")
    pos = hir.find_calls(pti["body"], "position")
    rem = hir.find_calls(pti["body"], "remove")
    ctx.ob("I-INDEX", "parse_terms_with_image: index = position(== Placeholder), element removed before the index is stored",
           len(pos) == 1 and pos[0].get("def") == "std::iter::Iterator::position" and len(rem) == 1, "")

    # ---- N-EMPTY
    ctx.rule("N-EMPTY", "every construction of a named atom from external text is dominated by a non-empty test of that text: parse_atom "
             "applies the scanned name only after `name_buffer.is_empty()` was false; in fold_atom every path to a String-carrying atom "
             "constructor passes the edge `name.is_empty() == false` or `prefix == placeholder prefix` (and prefixes are pairwise distinct, so "
             "the latter cannot reach a named constructor)")
    pa = f.mir_fn("parse_atom", module="impl_enum::parser")
    g = mir.cfg(pa)
    sym = G.Sym(pa)
    sets = g.calls("set_atom_name")
    ok = len(sets) == 1
    if ok:
        gs = ["%s = %s" % (e, v) for e, v in sym.guards(sets[0][0])]
        ok = any(x.startswith("is_empty(") and x.endswith("= false") for x in gs)
    ctx.ob("N-EMPTY", "parse_atom", ok, "set_atom_name is not dominated by a non-empty test of the name buffer")
    fa = f.mir_fn("fold_atom", module="lexical_fold::impl_enum")
    g = mir.cfg(fa)
    # fold_atom(folder, prefix, name): parameters by position, not by name
    if fa["arg_count"] != 3:
        raise AnchorMissing("fold_atom(folder, prefix, name)")
    prefix_arg, name_arg = 2, 3
    good = set()
    for bi, t in g.calls("is_empty"):
        r, pth = g.resolve_operand(t["args"][0])
        if r == ("arg", name_arg):
            br = g.bool_branch(bi)
            if br:
                good.add((g.last_switch_block, br[1]))
    for bi, t in g.calls("eq"):
        r0, p0 = g.resolve_operand(t["args"][0])
        r1, p1 = g.resolve_operand(t["args"][1])
        if r0 == ("arg", prefix_arg) and p1[-2:] == ["atom", "prefix_placeholder"]:
            br = g.bool_branch(bi)
            if br and not g.dominates(br[0], br[0]) is None:
                # only the test placed before the constructor chain counts: its true edge must not lead straight to the Placeholder constructor
                good.add((g.last_switch_block, br[0]))
    named = 0
    for bi in sorted(g.reach):
        for s in fa["blocks"][bi]["stmts"]:
            if s["k"] == "Assign" and s["rv"]["k"] == "Aggregate" and s["rv"].get("adt") == TERM and s["rv"]["ops"] and \
                    s["rv"]["variant"] in ("Word", "VariableIndependent", "VariableDependent", "VariableQuery", "Operator"):
                named += 1
                bad = reach_avoiding_edges(g, 0, bi, good)
                ctx.ob("N-EMPTY", "fold_atom %s" % s["rv"]["variant"], not bad, "a path reaches the constructor without a non-empty test of the name",
                       "%s:%s" % (fa["span"]["file"], s["line"]))
    ctx.floor("named atom constructors in fold_atom", named, 5)
    # ... and the rejection is no stronger than that: the Err guard is a CONJUNCTION containing `name.is_empty()` (with `||` every
    # non-placeholder atom would be rejected -- all five constructors dead, which the reachability rule above cannot see)
    fah = f.hir_fn("fold_atom", module="lexical_fold::impl_enum")
    guards_ = []
    for st_ in strip(fah["body"])["stmts"]:
        x = strip(st_["expr"]) if st_["k"] in ("Semi", "Expr") else None
        if x is not None and x["k"] == "If" and any(n_.get("k") == "Ret" for n_ in hir.walk(x["then"])):
            guards_.append(x)

    def conjuncts(e_):
        e_ = strip(e_)
        if e_["k"] == "Binary" and e_["op"] in ("&&", "And"):
            return conjuncts(e_["l"]) + conjuncts(e_["r"])
        return [e_]
    okg = len(guards_) == 1
    if okg:
        # the guard in its normal form (hir.as_branch: `!`, De Morgan and `||` folded into a conjunction of possibly negated tests; named
        # temporaries read through): the branch that returns Err must be the THEN branch of a conjunction containing `name.is_empty()`
        br_ = hir.as_branch(dict(guards_[0], cond=hir.through_lets(guards_[0]["cond"], hir.let_env(fah["body"]))))
        cs = conjuncts(br_[0]) if br_ and br_[1] is not None and any(n_.get("k") == "Ret" for n_ in hir.walk(br_[1])) else []
        okg = any(c["k"] == "MethodCall" and c["method"] == "is_empty" and field_path(c["recv"]) == (fa["locals"][name_arg]["name"],) for c in cs) \
            and not any(c["k"] == "Binary" and c["op"] in ("||", "Or") for c in cs)
    ctx.ob("N-EMPTY", "fold_atom rejects ONLY empty names (the Err guard is a conjunction containing name.is_empty())", okg,
           "one early Err return guarded by `name.is_empty() && ..` expected")
    T = tables.Tables(ctx)
    for name in T.names:
        e = T.e_roles(name)
        vals = list(e["prefix"].values())
        ctx.ob("N-EMPTY", "%s atom prefixes pairwise distinct" % name, len(vals) == len(set(vals)), "%s" % vals)

    # ---- A-ARITY
    ctx.rule("A-ARITY", "enum parser: a compound or set is returned only after `terms.is_empty()` was false; negation is filled only when "
             "`len == 1`, the binary forms only when `len == 2` (exact equality)")
    pc = f.mir_fn("parse_compound", module="impl_enum::parser")
    g = mir.cfg(pc)
    sym = G.Sym(pc)
    oks = [(bi, t) for bi, t in g.calls("ok")]
    ok = bool(oks) and all(any(e.startswith("is_empty(") and v == "false" for e, v in sym.guards(bi)) for bi, t in oks)
    ctx.ob("A-ARITY", "parse_compound returns Ok only for non-empty contents", ok, "")
    pops = g.calls("pop")
    arity = []
    for bi, t in pops:
        gs = sym.guards(bi)
        eqs = [(e, v) for e, v in gs if (e.startswith("Ne(len(") and v == "false") or (e.startswith("Eq(len(") and v == "true")]
        arity.append(eqs[-1][0] if eqs else None)
    want = ["Ne(len(new()),1)", "Ne(len(new()),2)", "Ne(len(new()),2)"]
    alt = [w.replace("Ne(", "Eq(") for w in want]
    ctx.ob("A-ARITY", "parse_compound pops under exact length tests (1, 2, 2)", arity == want or arity == alt, "pops guarded by %s" % arity)
    # an image loses its placeholder after the emptiness test: non-emptiness must be re-established afterwards
    img = g.calls("parse_terms_with_image")
    exts = [(bi, t) for bi, t in g.calls("extend") if img and g.dominates(img[0][0], bi)]
    ok = bool(img) and bool(exts)
    why = "no extend of the image vector after parse_terms_with_image"
    for bi, t in exts:
        late = [e for (e, v, d, s_, discr) in sym._guards_full(bi) if e.startswith("is_empty(") and v == "false" and g.dominates(img[0][0], d)]
        if not late:
            ok = False
            why = "the placeholder is removed from `terms` after the emptiness test and nothing re-checks it: an image written with only its placeholder is returned with no components"
    ctx.ob("A-ARITY", "parse_compound image: non-empty after the placeholder is removed", ok, why, "%s:%s" % (pc["span"]["file"], img[0][1]["line"] if img else pc["span"]["line"]))
    pts = f.mir_fn("parse_term_set", module="impl_enum::parser")
    g = mir.cfg(pts)
    sym = G.Sym(pts)
    oks = g.calls("ok")
    ok = bool(oks) and all(any(e.startswith("is_empty(") and v == "false" for e, v in sym.guards(bi)) for bi, t in oks)
    ctx.ob("A-ARITY", "parse_term_set returns Ok only for non-empty contents", ok, "")

    # ---- formatting / Typst never panic on such values
    reach_fmt = panics.rule_P_TABLE(ctx, ["enum_formatter", "typst"], 6)
    progress.rule_L_PROGRESS(ctx, reach_fmt, 3, enum=False)
    ctx.rule("M-FMT", "format_atom (-> get_atom_name_unchecked, which panics for non-atoms) is called only from the arms of _format_term whose "
             "variants are atoms; Typst calls it only under category Atom")
    import c01
    it, fm = c01.formatter_term_map(ctx)
    adt = f.adts[TERM]
    atoms = {v["name"] for v in adt["variants"] if [x["ty"] for x in v["fields"]] in ([], ["std::string::String"], ["usize"])}
    users = {v for v, (helper, fields, call, pat) in fm.items() if helper == "format_atom"}
    ctx.ob("M-FMT", "format_atom used exactly for the atom variants", users == atoms, "used for %s" % sorted(users ^ atoms))
    callers = sorted({b["name"] for p, b in f.mir.items() if mir.cfg(b).calls("get_atom_name_unchecked")})
    ctx.ob("M-FMT", "callers of get_atom_name_unchecked", set(callers) <= {"format_atom", "get_atom_name", "format_term"}, "%s" % callers)
    # the parsers store names and components through the two term mutators and rely on them storing verbatim / completely
    # (seeds c12-e: push_components dropped placeholders, c12-f: set_atom_name trimmed underscores)
    import c17 as _c17
    _c17.rule_K_MUTATOR(ctx)
    # the enum parser's productions: which keyword is tested / skipped / handed to which sub-parser, which slot is filled (P-SKELETON), in terms of
    # cursor primitives with exactly their reviewed meaning (P-PRIM)
    import pskel as _pskel
    _pskel.rule_P_PRIM(ctx)
    _pskel.rule_P_SKELETON(ctx)
    # naming-law lints over the modules this property lives in (sibling slips: truth<->budget, stamp<->punctuation, left<->right, swapped arguments)
    import roles as _roles
    _roles.rule_R_ROLE(ctx, modules=('conversion::string::impl_enum::parser', 'conversion::inter_type', 'enum_narsese::'))
    _roles.rule_A_NAMES(ctx, modules=('conversion::string::impl_enum::parser', 'conversion::inter_type', 'enum_narsese::'))
    import lskel as _lskel
    _lskel.rule_L_SKELETON(ctx, which=('fold', 'term'), floor=10)
    ctx.undecided = ["identifier well-formedness of parsed names beyond non-emptiness (value-dependent)",
                     "formatting totality relies on the reviewed table for its index sites and on std formatting being total"]
    ctx.assumptions = ["axioms of C04 (usize +, finite iterators, unlisted external callees total)"]
    ctx.trusted = ["rustc MIR/HIR", "mirfacts driver", "reviewed panic-site table", "python rule layer"]
    return ("Well-formedness by construction discipline: truth/budget values with components are built only inside the validating "
            "constructors (who-may-construct over everything reachable from parser and fold) and every argument reaching them is range-checked "
            "on a dominating edge; image indices are written only by the range-tested constructor or as a first-placeholder position; named "
            "atoms are built only behind a non-empty test; compounds are returned only behind emptiness/exact-arity tests; the three formatters "
            "and the Typst renderer have no unreviewed panic edge.")
