"""Check context: obligations, violations, known-findings gate, evidence writer."""
import json, os, sys, time

from facts import VERIF, AnchorMissing, Infra

KNOWN = os.path.join(VERIF, "known_findings.json")
EVID = os.environ.get("VERIF_EVIDENCE_DIR") or os.path.join(VERIF, "evidence")
REPLAYS = os.environ.get("VERIF_REPLAY_DIR") or os.path.join(VERIF, "replays")


def site_of(item):
    """file:line of a HIR/MIR item (diagnostic only; never part of a key)"""
    if not item:
        return None
    sp = item.get("span")
    if sp:
        return "%s:%s" % (sp["file"], sp["line"])
    return None


class FloorStop(Exception):
    pass


class Ctx:
    def __init__(self, pid, tier, level, facts=None):
        self.pid = pid
        self.tier = tier
        self.level = level
        self.facts = facts
        self.t0 = time.time()
        self.obligations = []   # dicts rule, instance, ok, detail, site
        self.viol = []
        self.rules = {}
        self.analysed = {"functions": set(), "tables": set(), "call_sites": 0}
        self.assumptions = []
        self.trusted = []
        self.notes = []
        self.samples = []
        self.extra = {}
        self.undecided = []

    # ------------------------------------------------------------------
    def rule(self, name, text):
        self.rules[name] = text

    def fn(self, item):
        """note a function as analysed"""
        if isinstance(item, dict):
            self.analysed["functions"].add(item.get("path"))
        else:
            self.analysed["functions"].add(item)

    def ob(self, rule, instance, ok, detail="", site=None):
        """one obligation = one rule instance; a failed one is a violation
        keyed by (rule, instance) -- never by line."""
        o = {"rule": rule, "instance": instance, "ok": bool(ok)}
        if detail:
            o["detail"] = detail
        if site:
            o["site"] = site
        self.obligations.append(o)
        if not ok:
            self.viol.append({"key": "%s %s" % (rule, instance), "rule": rule,
                              "instance": instance, "detail": detail, "site": site})
        return bool(ok)

    def unrecognised(self, rule, where, what, site=None):
        """an anchored function contains a construct outside the recognised
        idiom set: reported (exit 1), never guessed."""
        self.ob(rule, "%s UNRECOGNISED-IDIOM" % where, False, what, site)

    def floor(self, name, count, minimum):
        """fail closed if a rule matched fewer instances than counted by hand"""
        self.extra.setdefault("instance_counts", {})[name] = count
        if count < minimum:
            # a rule that no longer finds the instances counted by hand would pass vacuously: on a changed tree that is a finding about the
            # change (reported as a violation, exit 1), never a silent pass and not an infrastructure error
            self.ob("FLOOR", "%s >= %d" % (name, minimum), False, "the rule found only %d instance(s) where %d were confirmed by hand: its subject was "
                    "removed or rewritten into a shape the rule does not see" % (count, minimum))
            raise FloorStop(name)

    def _samples(self):
        """explicit samples plus one written-out obligation per rule (so every rule is represented)"""
        out = list(self.samples[:8])
        seen = set(x.get("rule") for x in out if isinstance(x, dict))
        for o in self.obligations:
            if o["rule"] not in seen:
                seen.add(o["rule"])
                out.append(o)
            if len(out) >= 20:
                break
        return out or self.obligations[:6]

    def sample(self, s):
        if len(self.samples) < 12:
            self.samples.append(s)

    # ------------------------------------------------------------------
    def new_violations(self):
        """violations that are not listed as known findings (the same split finish() makes)"""
        known = set()
        try:
            kf = json.load(open(KNOWN, encoding="utf-8"))
            known = {f["key"] for f in kf.get("findings", []) if f.get("property") == self.pid and f.get("status") == "known"}
        except FileNotFoundError:
            pass
        return [v for v in self.viol if v["key"] not in known]

    def finish(self, explanation, checker_cmd=None):
        known = {}
        try:
            kf = json.load(open(KNOWN, encoding="utf-8"))
            for f in kf.get("findings", []):
                if f.get("property") == self.pid and f.get("status") == "known":
                    known[f["key"]] = f
        except FileNotFoundError:
            pass
        new, listed = [], []
        seen = set()
        for v in self.viol:
            if v["key"] in seen:
                continue
            seen.add(v["key"])
            (listed if v["key"] in known else new).append(v)
        wall = time.time() - self.t0
        n_ob = len(self.obligations)
        n_ok = sum(1 for o in self.obligations if o["ok"])
        per_rule = {}
        for o in self.obligations:
            r = per_rule.setdefault(o["rule"], [0, 0])
            r[0] += 1
            r[1] += 1 if o["ok"] else 0
        cov = {
            "explanation": explanation,
            "obligations": n_ob,
            "discharged": n_ok + len([1 for v in listed]),
            "obligations_by_rule": {k: {"checked": v[0], "held": v[1]} for k, v in sorted(per_rule.items())},
            "rules_applied": self.rules,
            "functions_analysed": sorted(x for x in self.analysed["functions"] if x),
            "samples": self._samples(),
            "exhaustive": True,
            "undecided_clauses": self.undecided,
            "checker_cmd": checker_cmd or ("checks/check %s --tier %s" % (self.pid, self.tier)),
            "trusted_base": self.trusted,
            "known_findings_listed": [v["key"] for v in listed],
            "fact_extraction": {
                "config": getattr(self.facts, "config", None),
                "seconds": round(getattr(self.facts, "extract_s", 0.0), 2),
                "cache_hit": getattr(self.facts, "cached", None),
                "mir_bodies": len(self.facts.mir) if self.facts else 0,
                "hir_items": len(self.facts.hir) if self.facts else 0,
            },
        }
        cov.update(self.extra)
        if self.notes:
            cov["notes"] = self.notes
        ev = {
            "property_id": self.pid,
            "tier": self.tier,
            "seed": int(os.environ.get("VERIF_SEED", "0") or 0),
            "level": self.level,
            "coverage": cov,
            "assumptions": self.assumptions,
            "wall_s": round(wall, 3),
            "violations": len(new),
        }
        os.makedirs(EVID, exist_ok=True)
        with open(os.path.join(EVID, "%s.json" % self.pid), "w", encoding="utf-8") as fh:
            json.dump(ev, fh, ensure_ascii=False, indent=1)
        print("%s [%s]: %d obligations over %d rules, %d held, %d known, %d new violations (%.2fs)"
              % (self.pid, self.tier, n_ob, len(per_rule), n_ok, len(listed), len(new), wall))
        for v in listed:
            print("KNOWN-FINDING: property=%s %s -- %s" % (self.pid, v["key"], known[v["key"]].get("what", "")))
        if new:
            os.makedirs(REPLAYS, exist_ok=True)
            rp = os.path.join(REPLAYS, "%s.json" % self.pid)
            with open(rp, "w", encoding="utf-8") as fh:
                json.dump({"property": self.pid, "violations": new}, fh, ensure_ascii=False, indent=1)
            for v in new:
                print("  violated: %s%s%s" % (v["key"], (" @ " + v["site"]) if v.get("site") else "",
                                               (" :: " + v["detail"]) if v.get("detail") else ""))
            print("VIOLATION property=%s replay=%s" % (self.pid, os.path.relpath(rp, VERIF)))
            return 1
        return 0
