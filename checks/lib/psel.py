"""Pattern-directed selection: which leaf of a nest of `match` / `if let` expressions is the value of a function for ONE given variant of its
subject (and given results of classifying calls on the subject, e.g. its category)?  A shape rule that needs "variant -> constant" reads the
map through this selector instead of through the spelling of the match: `match term { SetExtension(..) => A, _ => match term.get_category() {
Compound => B, .. } }` and `match (term, term.get_category()) { (SetExtension(..), _) => A, (_, Compound) => B, .. }` select the same leaves.

    select(e, subject, variant, calls)  ->  leaf expression
        subject   set of local names / hids that denote the value whose variant is known (`self`, the parameter, a `*deref` of it)
        variant   its variant name
        calls     {method name: variant name of the returned enum} for classifying calls on the subject (e.g. {"get_category": "Compound"})
Raises hir.Unrecognised when an arm cannot be decided (a pattern on an unknown value, a guard)."""
import hir
from hir import strip, Unrecognised


def _is_subject(e, subject):
    e = strip(e)
    while e.get("k") in ("AddrOf", "Deref") or (e.get("k") == "Unary" and e.get("op") in ("*", "Deref")):
        e = strip(e["e"])
    if e.get("k") == "Path" and e.get("path", {}).get("res") == "local":
        return e["path"].get("name") in subject or e["path"].get("hid") in subject
    return False


def value_of(e, subject, variant, calls):
    """abstract value of a scrutinee: ("variant", name) | ("tuple", [values]) | ("unknown",)"""
    e0 = strip(e)
    if _is_subject(e0, subject):
        return ("variant", variant)
    if e0.get("k") == "MethodCall" and e0["method"] in calls and _is_subject(e0["recv"], subject) and not e0["args"]:
        return ("variant", calls[e0["method"]])
    if e0.get("k") == "Call" and (hir.callee_name(e0) or "") in calls and len(e0["args"]) == 1 and _is_subject(e0["args"][0], subject):
        return ("variant", calls[hir.callee_name(e0)])
    if e0.get("k") == "Tup":
        return ("tuple", [value_of(x, subject, variant, calls) for x in e0["elems"]])
    return ("unknown",)


def matches(pat, val, binds=None):
    """True / False; Unrecognised when the pattern tests an unknown value.  `binds` (optional dict) receives, for a matching variant pattern on
    a known variant, {binder name: field index or field name} of its direct sub-bindings and {binder name: "whole"} for `x @ P` / a plain
    binding of the whole value."""
    q = pat
    while q.get("k") in ("Ref", "Box", "Deref") or (q.get("k") == "Binding" and q.get("sub")):
        if q["k"] == "Binding":
            if binds is not None and val[0] == "variant":
                binds[q["name"]] = "whole"
            q = q["sub"]
        else:
            q = q["pat"]
    if q.get("k") == "Binding":
        if binds is not None and val[0] == "variant":
            binds[q["name"]] = "whole"
        return True
    if q.get("k") == "Wild":
        return True
    if q.get("k") == "Or":
        for x in q["pats"]:
            b2 = {} if binds is not None else None
            if matches(x, val, b2):
                if binds is not None:
                    binds.update(b2)
                return True
        return False
    if q.get("k") == "Tuple":
        if val[0] != "tuple" or q.get("ddpos") is not None or len(q["pats"]) != len(val[1]):
            raise Unrecognised("tuple pattern against %s" % (val[0],), q)
        return all(matches(x, v, binds) for x, v in zip(q["pats"], val[1]))
    vs = hir.pat_variants(q)
    if vs is None:
        return True
    if val[0] != "variant":
        raise Unrecognised("variant pattern against an unknown value", q)
    ok = val[1] in {str(v) for v in vs}
    if ok and binds is not None:
        if q.get("k") == "TupleStruct":
            dd = q.get("ddpos")
            for i, sub in enumerate(q.get("pats", [])):
                y = sub
                while y.get("k") in ("Ref", "Box", "Deref"):
                    y = y["pat"]
                if y.get("k") == "Binding" and not y.get("sub"):
                    # positions after a `..` count from the end: not resolvable without the arity -> marked
                    binds[y["name"]] = i if (dd is None or i < dd) else ("after-rest", len(q["pats"]) - i)
        elif q.get("k") == "Struct":
            for fd in q.get("fields", []):
                y = fd.get("pat", {})
                while y.get("k") in ("Ref", "Box", "Deref"):
                    y = y["pat"]
                if y.get("k") == "Binding" and not y.get("sub"):
                    binds[y["name"]] = fd["name"]
    return ok


def select(e, subject, variant, calls=None, depth=0, binds=None):
    calls = calls or {}
    e0 = strip(e)
    while e0.get("k") == "DropTemps":
        e0 = strip(e0["e"])
    if depth > 12:
        return e0
    if e0.get("k") == "Block":
        real = [s for s in e0.get("stmts", []) if s["k"] != "Item"]
        if not real and e0.get("expr") is not None:
            return select(e0["expr"], subject, variant, calls, depth + 1, binds)
        # `let P = subject else { B }; REST`
        if real and real[0]["k"] == "Let" and real[0].get("els") is not None and real[0].get("init") is not None:
            val = value_of(real[0]["init"], subject, variant, calls)
            if val[0] != "unknown":
                if matches(real[0]["pat"], val, binds):
                    return select(dict(e0, stmts=[s for s in e0["stmts"] if s is not real[0]]), subject, variant, calls, depth + 1, binds)
                return select(real[0]["els"], subject, variant, calls, depth + 1, binds)
        return e0
    if e0.get("k") == "Match" and "Desugar" not in e0.get("source", "") and "ForLoop" not in e0.get("source", ""):
        val = value_of(e0["scrut"], subject, variant, calls)
        if val[0] == "unknown":
            return e0
        for a in e0["arms"]:
            if a.get("guard"):
                raise Unrecognised("guarded arm", a)
            if matches(a["pat"], val, binds):
                return select(a["body"], subject, variant, calls, depth + 1, binds)
        raise Unrecognised("no arm matches %s" % (val,), e0)
    if e0.get("k") == "If" and strip(e0["cond"]).get("k") == "LetExpr":
        c = strip(e0["cond"])
        val = value_of(c["init"], subject, variant, calls)
        if val[0] == "unknown":
            return e0
        if matches(c["pat"], val, binds):
            return select(e0["then"], subject, variant, calls, depth + 1, binds)
        if e0.get("else") is None:
            raise Unrecognised("if let without else", e0)
        return select(e0["else"], subject, variant, calls, depth + 1, binds)
    return e0
