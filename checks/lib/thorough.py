"""Thorough tier additions: (1) cfg-invariance of the analysed bodies across the buildable feature configurations,
(2) the self-test battery for the property (seeded single-instance breakages must be detected, controls must stay silent)."""
import json, os, subprocess, sys, re
import facts
from facts import VERIF


def strip_lines(x):
    """drop line/column info so bodies can be compared across configurations"""
    if isinstance(x, dict):
        return {k: strip_lines(v) for k, v in x.items() if k not in ("line", "fn_line", "span", "col", "line_hi", "vis")}
    if isinstance(x, list):
        return [strip_lines(v) for v in x]
    return x


def cfg_invariance(ctx):
    ctx.rule("CFG-INVARIANT", "every MIR body present in a non-default feature configuration (no features; lexical_narsese only) is identical, "
             "up to positions, to the body analysed in the default configuration, so the verdicts carry over; `--features enum_narsese` alone does "
             "not build on the pinned tree (crate::lexical unresolved) and is reported, not analysed")
    base = ctx.facts
    bidx = {p: json.dumps(strip_lines(b), sort_keys=True) for p, b in base.mir.items()}
    for cfg in ("nodefault", "lexical_only"):
        try:
            other = facts.load(cfg)
        except facts.Infra as e:
            ctx.ob("CFG-INVARIANT", "configuration %s builds" % cfg, False, str(e)[:300])
            continue
        diff, extra = [], []
        for p, b in other.mir.items():
            if p not in bidx:
                extra.append(p)
            elif json.dumps(strip_lines(b), sort_keys=True) != bidx[p]:
                diff.append(p)
        ctx.ob("CFG-INVARIANT", "%s: %d bodies, all identical to the default configuration" % (cfg, len(other.mir)), not diff and not extra,
               "bodies that differ: %s; bodies only in this configuration: %s" % (diff[:5], extra[:5]))
        ctx.extra.setdefault("configurations", {})[cfg] = {"mir_bodies": len(other.mir), "differing": len(diff), "only_here": len(extra)}
    ctx.extra.setdefault("configurations", {})["enum_narsese only"] = "does not build on the pinned tree; not analysed"


def battery(ctx, pid):
    """run the property's entries of the mutant catalogue against scratch copies of the current /repo"""
    r = subprocess.run([sys.executable, os.path.join(VERIF, "bin", "mutants.py"), "--prop", pid, "-j", "16"], capture_output=True, text=True)
    rows = []
    for l in r.stdout.splitlines():
        m = re.match(r"^(\S+)\s+(OK|MISSED|INVALID|STALE|FALSE-ALARM)\b", l)
        if m:
            rows.append((m.group(1), m.group(2)))
    is_ctl = lambda i: i.startswith("ctl-") or i.startswith("control-")
    det = sum(1 for i, s in rows if s == "OK" and not is_ctl(i))
    ctl = sum(1 for i, s in rows if s == "OK" and is_ctl(i))
    stale = [i for i, s in rows if s in ("STALE", "INVALID")]
    bad = [(i, s) for i, s in rows if s in ("MISSED", "FALSE-ALARM")]
    ctx.extra["self_test_battery"] = {"entries": len(rows), "seeded_breakages_detected": det, "controls_silent": ctl,
                                      "stale_or_invalid_on_this_tree": stale, "failures": bad,
                                      "note": "each entry breaks one rule instance in a scratch copy of /repo that must still type-check; the check must exit 1 naming that instance; "
                                              "controls (hand-written `ctl-*` and the independently written refactorings `control-rf*`) must stay silent"}
    return bad
