"""Fact extraction (rustc_private driver) with a content-hash cache, and indexes
over the fact file.  Nothing from /repo is executed: the driver stops after
analysis (cargo check)."""
import hashlib, json, os, subprocess, sys, time, shutil

VERIF = os.path.dirname(os.path.dirname(os.path.dirname(os.path.abspath(__file__))))
REPO = os.environ.get("VERIF_REPO", "/repo")
MAIN_CACHE = os.path.join(VERIF, ".cache")
# scratch runs (mutation batteries) point VERIF_CACHE_DIR at their own temporary directory so that thousands of one-off trees do not pile up
CACHE = os.environ.get("VERIF_CACHE_DIR") or MAIN_CACHE
DRIVER = os.path.join(VERIF, "engines/mirfacts/target/release/mirfacts")
EXTRACT = os.path.join(VERIF, "bin/extract.sh")

CONFIGS = {
    "default": [],
    "nodefault": ["--no-default-features"],
    "lexical_only": ["--no-default-features", "--features", "lexical_narsese"],
}


class Infra(Exception):
    """Infrastructure failure: exit 2, no VIOLATION line."""


def tree_hash(repo=None):
    repo = repo or REPO
    h = hashlib.sha256()
    files = []
    for root, dirs, fs in os.walk(os.path.join(repo, "src")):
        dirs.sort()
        for f in sorted(fs):
            files.append(os.path.join(root, f))
    for f in ("Cargo.toml", "Cargo.lock", "README.md", "README.en.md"):
        files.append(os.path.join(repo, f))
    for p in files:
        h.update(os.path.relpath(p, repo).encode())
        try:
            with open(p, "rb") as fh:
                h.update(fh.read())
        except OSError:
            h.update(b"<missing>")
    try:
        st = os.stat(DRIVER)
        h.update(("%d:%d" % (st.st_size, int(st.st_mtime))).encode())
    except OSError:
        pass
    try:
        # the extraction flags (cfg of the verification hooks, opt level) are part of what a cached fact file means
        with open(os.path.join(VERIF, "bin", "extract.sh"), "rb") as fh:
            h.update(fh.read())
    except OSError:
        pass
    return h.hexdigest()[:24]


def extract(config="default", repo=None):
    """Returns (path of fact file, seconds spent extracting, cache hit?)."""
    repo = repo or REPO
    if not os.path.exists(DRIVER):
        raise Infra("mirfacts driver not built: run MANIFEST.setup_cmd")
    key = tree_hash(repo) + "-" + config
    out = os.path.join(CACHE, key)
    fact = os.path.join(out, "narsese.json")
    if os.path.exists(fact) and os.path.getsize(fact) > 0:
        return fact, 0.0, True
    t0 = time.time()
    tmp = out + ".tmp%d" % os.getpid()
    shutil.rmtree(tmp, ignore_errors=True)
    r = subprocess.run([EXTRACT, repo, tmp] + CONFIGS[config], capture_output=True, text=True)
    if r.returncode != 0 or not os.path.exists(os.path.join(tmp, "narsese.json")):
        msg = r.stderr[-3000:]
        shutil.rmtree(tmp, ignore_errors=True)
        raise Infra("fact extraction failed for config %s:\n%s" % (config, msg))
    os.makedirs(CACHE, exist_ok=True)
    try:
        os.rename(tmp, out)
    except OSError:
        # a concurrent check extracted the same tree first: its result is identical (same content hash)
        shutil.rmtree(tmp, ignore_errors=True)
        if not (os.path.exists(fact) and os.path.getsize(fact) > 0):
            raise Infra("could not install the extracted facts at %s" % out)
    _gc()
    return fact, time.time() - t0, False


def _gc(keep=40, min_age=1800):
    """drop old cache entries; never entries younger than min_age seconds (parallel runs)"""
    try:
        now = time.time()
        import re as _re
        ents = [os.path.join(CACHE, e) for e in os.listdir(CACHE) if _re.match(r"^([0-9a-f]{16,}-\w+|canary-[0-9a-f]+)(\.tmp\d+)?$", e)]
        ents = [e for e in ents if os.path.isdir(e)]
        ents.sort(key=lambda e: os.stat(e).st_mtime, reverse=True)
        for e in ents[keep:]:
            if now - os.stat(e).st_mtime > min_age:
                shutil.rmtree(e, ignore_errors=True)
    except OSError:
        pass


class Facts:
    def __init__(self, path, config="default", extract_s=0.0, cached=False):
        with open(path, encoding="utf-8") as fh:
            d = json.load(fh)
        self.path = path
        self.config = config
        self.extract_s = extract_s
        self.cached = cached
        self.raw = d
        self.adts = {a["path"]: a for a in d["adts"]}
        self.impls = d["impls"]
        self.globals = {g["path"]: g for g in d["globals"]}
        self.hir = {}
        for it in d["hir"]:
            self.hir.setdefault(it["path"], it)
        self.mir = {}
        self.promoted = {}
        for b in d["mir"]:
            if b.get("promoted") is not None:
                self.promoted[(b["path"], b["promoted"])] = b
            else:
                self.mir.setdefault(b["path"], b)
        # renamed private functions get their reviewed names back; new helper functions are transparent (see inline.py)
        import inline
        self.renamed = inline.apply_renames(self)
        self.reordered = inline.apply_param_order(self)
        self.inlined = inline.apply(self)
        if self.inlined is not None and self.inlined.new:
            inline.apply_mir(self, self.inlined)

    # ---- lookup helpers: match on path with generic parameters stripped ----
    @staticmethod
    def norm(path):
        """`a::B::<'a, C>::f` -> `a::B::f`; `<impl X>` pieces kept."""
        out, depth, i = [], 0, 0
        s = path
        while i < len(s):
            if s.startswith("::<", i) and depth == 0 and not s.startswith("::<impl", i):
                # skip generic args
                j, d2 = i + 3, 1
                while j < len(s) and d2:
                    if s[j] == "<": d2 += 1
                    elif s[j] == ">": d2 -= 1
                    j += 1
                i = j
                continue
            out.append(s[i]); i += 1
        return "".join(out)

    def find(self, table, suffix):
        """all entries whose normalised path ends with `suffix` at a `::` boundary"""
        res = []
        for p, v in table.items():
            n = self.norm(p)
            if n == suffix or n.endswith("::" + suffix):
                res.append(v)
        return res

    def select(self, table, name, module=None, self_ty=None, trait=None, kind=None):
        """semantic lookup: item name, defining module substring, impl self type
        substring, trait path substring"""
        res = []
        for p, v in table.items():
            if v.get("name") != name:
                continue
            if module and module not in p and module not in (v.get("span", {}).get("file", "")):
                continue
            imp = v.get("impl") or {}
            if self_ty is not None and self_ty not in (imp.get("self_ty") or ""):
                continue
            if trait is not None and trait not in (imp.get("trait") or ""):
                continue
            if trait is None and self_ty is not None and imp.get("trait"):
                continue
            if kind and v.get("defkind") != kind:
                continue
            res.append(v)
        return res

    def hir_fn(self, name, **kw):
        r = self.select(self.hir, name, **kw)
        if len(r) != 1:
            raise AnchorMissing("HIR fn `%s` %s: %d matches" % (name, kw, len(r)))
        return r[0]

    def mir_fn(self, name, **kw):
        r = self.select(self.mir, name, **kw)
        if len(r) != 1:
            raise AnchorMissing("MIR fn `%s` %s: %d matches" % (name, kw, len(r)))
        return r[0]

    def hir1(self, suffix):
        r = self.find(self.hir, suffix)
        if len(r) != 1:
            raise AnchorMissing("HIR item `%s`: %d matches" % (suffix, len(r)))
        return r[0]

    def mir1(self, suffix):
        r = self.find(self.mir, suffix)
        if len(r) != 1:
            raise AnchorMissing("MIR body `%s`: %d matches" % (suffix, len(r)))
        return r[0]

    def adt1(self, suffix):
        r = self.find(self.adts, suffix)
        if len(r) != 1:
            raise AnchorMissing("ADT `%s`: %d matches" % (suffix, len(r)))
        return r[0]


class AnchorMissing(Exception):
    """An anchor (function, table, impl) a rule is instantiated from is absent:
    fail closed (exit 2), because a rule matching nothing passes vacuously."""


_loaded = {}


def load(config="default", repo=None):
    k = (config, repo or REPO)
    if k not in _loaded:
        path, secs, cached = extract(config, repo)
        _loaded[k] = Facts(path, config, secs, cached)
    return _loaded[k]
