"""Helpers over the HIR JSON: traversal, literal table evaluation, first-match
chains, field-path recognition.  Recognisers are semantic: names are resolved
def paths, `match b {true,false}` == `if`, or-patterns == separate arms."""
import hirpp


class Unrecognised(Exception):
    def __init__(self, what, node=None):
        Exception.__init__(self, what)
        self.what = what
        self.line = (node or {}).get("line")


CHILD_KEYS = ("f", "recv", "e", "l", "r", "cond", "then", "else", "scrut", "body", "init",
              "expr", "idx", "base", "guard", "els")
LIST_KEYS = ("args", "elems", "stmts", "arms", "fields")


def children(n):
    if not isinstance(n, dict):
        return
    for k in CHILD_KEYS:
        v = n.get(k)
        if isinstance(v, dict) and "k" in v:
            yield v
    for k in LIST_KEYS:
        v = n.get(k)
        if isinstance(v, list):
            for x in v:
                if isinstance(x, dict):
                    if "k" in x:
                        yield x
                    else:  # arm / struct field
                        for kk in ("guard", "body", "expr"):
                            y = x.get(kk)
                            if isinstance(y, dict) and "k" in y:
                                yield y


def walk(n):
    """pre-order over expression/statement nodes (closures included)"""
    stack = [n]
    while stack:
        x = stack.pop()
        yield x
        ch = list(children(x))
        stack.extend(reversed(ch))


def strip(e):
    """strip transparent wrappers: single-expression blocks, parens, `&`, `*`, `.as_str()` etc. are
    NOT stripped here; only blocks without statements."""
    while e and e["k"] == "Block" and not e["stmts"] and e.get("expr"):
        e = e["expr"]
    return e


def callee(e):
    """resolved def path of a Call/MethodCall, else None"""
    if e["k"] == "MethodCall":
        return e.get("def")
    if e["k"] == "Call":
        f = strip(e["f"])
        if f["k"] == "Path" and f["path"].get("res") == "def":
            return f["path"]["def"]
    return None


def callee_name(e):
    c = callee(e)
    if c:
        return c.rsplit("::", 1)[-1]
    if e["k"] == "MethodCall":
        return e["method"]
    return None


def call_args(e):
    """arguments incl. the receiver as first for method calls"""
    if e["k"] == "MethodCall":
        return [e["recv"]] + e["args"]
    return e["args"]


def field_path(e):
    """`self.format.compound.brackets.0` -> ('self','format','compound','brackets','0');
    auto-borrows/derefs are transparent; returns None if not a pure path"""
    out = []
    e = strip(e)
    while True:
        if e["k"] == "Field":
            out.append(e["name"])
            e = strip(e["e"])
        elif e["k"] == "AddrOf":
            e = strip(e["e"])
        elif e["k"] == "Unary" and e["op"] == "*":
            e = strip(e["e"])
        elif e["k"] == "Path" and e["path"].get("res") == "local":
            out.append(e["path"]["name"])
            return tuple(reversed(out))
        elif e["k"] == "Path" and e["path"].get("res") == "def":
            out.append(e["path"]["def"])
            return tuple(reversed(out))
        else:
            return None


def is_unit_ok(e):
    e = strip(e)
    return e["k"] == "Call" and callee_name(e) == "Ok"


# ----------------------------------------------------------------------------
# literal evaluation of table expressions
STR_ID_METHODS = {"std::string::ToString::to_string", "std::convert::Into::into",
                  "std::borrow::ToOwned::to_owned", "std::convert::From::from",
                  "std::string::String::from", "alloc::string::ToString::to_string"}


def eval_table(e):
    """Evaluate a table-building expression to python data:
      str literal (through to_string/into/to_owned/String::from) -> str
      bool literal -> bool ; tuple -> tuple ; struct literal -> dict (+ '__struct__')
      path to a fn -> {'fn': def path}
      `{ let d = Default::default(); d.insert(x); ...; d }` -> {'dict': [x...], 'ty': type}
    anything else raises Unrecognised."""
    e = strip(e)
    k = e["k"]
    if k == "Lit":
        l = e["lit"]
        if l["lit"] in ("str", "bool", "char", "int"):
            return l["v"]
        raise Unrecognised("literal kind %s" % l["lit"], e)
    if k == "Tup":
        return tuple(eval_table(x) for x in e["elems"])
    if k == "AddrOf":
        return eval_table(e["e"])
    if k == "MethodCall" and e.get("def") in STR_ID_METHODS and not e["args"]:
        v = eval_table(e["recv"])
        if isinstance(v, str):
            return v
        raise Unrecognised("conversion of non-string", e)
    if k == "Call" and callee(e) in STR_ID_METHODS and len(e["args"]) == 1:
        v = eval_table(e["args"][0])
        if isinstance(v, str):
            return v
        raise Unrecognised("conversion of non-string", e)
    if k == "Struct":
        if e.get("base"):
            raise Unrecognised("struct update syntax in table", e)
        d = {"__struct__": e["path"].get("def")}
        for f in e["fields"]:
            d[f["name"]] = eval_table(f["expr"])
        return d
    if k == "Path":
        p = e["path"]
        if p.get("res") == "def" and p.get("defkind") in ("Fn", "AssocFn"):
            return {"fn": p["def"]}
        if p.get("res") == "def" and p.get("defkind", "").startswith("Const"):
            return {"const": p["def"]}
        raise Unrecognised("path %s in table" % hirpp.path_s(p), e)
    if k == "Block":
        # dictionary-building block
        stmts = e["stmts"]
        if not stmts or stmts[0]["k"] != "Let" or stmts[0]["pat"]["k"] != "Binding":
            raise Unrecognised("block in table is not a dictionary builder", e)
        var = stmts[0]["pat"]["name"]
        init = strip(stmts[0]["init"])
        if not (init["k"] == "Call" and callee_name(init) in ("default", "new")):
            raise Unrecognised("dictionary not built from default()/new()", e)
        items = []
        for s in stmts[1:]:
            if s["k"] not in ("Semi", "Expr"):
                raise Unrecognised("statement in dictionary builder", e)
            c = strip(s["expr"])
            if not (c["k"] == "MethodCall" and c["method"] == "insert" and field_path(c["recv"]) == (var,)
                    and len(c["args"]) == 1):
                raise Unrecognised("non-insert statement in dictionary builder", c)
            items.append(eval_table(c["args"][0]))
        tail = e.get("expr")
        if not tail or field_path(tail) != (var,):
            raise Unrecognised("dictionary builder does not return the dictionary", e)
        return {"dict": items, "ty": stmts[0]["init"].get("ty"), "insert": strip(stmts[1]["expr"]).get("def") if len(stmts) > 1 else None}
    raise Unrecognised("expression kind %s in table" % k, e)


# ----------------------------------------------------------------------------
# first-match chains
def if_chain(e):
    """`if c1 {b1} else if c2 {b2} ... else {bn}` -> ([(c1,b1),...], else_or_None).
    A `match cond { true => a, false => b }` link is equivalent and accepted."""
    links = []
    e = strip(e)
    while True:
        if e["k"] == "If":
            links.append((e["cond"], e["then"]))
            if e.get("else") is None:
                return links, None
            e = strip(e["else"])
            continue
        if e["k"] == "Match" and len(e["arms"]) == 2:
            pats = [bool_pat(a["pat"]) for a in e["arms"]]
            if set(pats) == {True, False} and not any(a.get("guard") for a in e["arms"]):
                t = e["arms"][pats.index(True)]["body"]
                f = e["arms"][pats.index(False)]["body"]
                links.append((e["scrut"], t))
                e = strip(f)
                continue
        return links, e


def bool_pat(p):
    if p["k"] == "Expr" and p["expr"]["k"] == "Lit" and p["expr"]["lit"]["lit"] == "bool":
        return p["expr"]["lit"]["v"]
    if p["k"] == "Wild":
        return None
    return "x"


def conjuncts(e):
    e = strip(e)
    if e["k"] == "Binary" and e["op"] == "&&":
        return conjuncts(e["l"]) + conjuncts(e["r"])
    return [e]


def disjuncts(e):
    e = strip(e)
    if e["k"] == "Binary" and e["op"] == "||":
        return disjuncts(e["l"]) + disjuncts(e["r"])
    return [e]


def find_calls(n, name=None, pred=None):
    """all Call/MethodCall nodes below n whose callee item name is `name`"""
    out = []
    for x in walk(n):
        if x.get("k") in ("Call", "MethodCall"):
            if name is not None and callee_name(x) != name:
                continue
            if pred and not pred(x):
                continue
            out.append(x)
    return out


def last_expr(e):
    """value expression of a block (tail), following nested tail blocks"""
    e = strip(e)
    while e["k"] == "Block" and e.get("expr"):
        e = strip(e["expr"])
    return e


def pat_variants(p):
    """set of (enum path, variant name) a pattern's top level constructor can be; Wild/Binding -> None (anything)"""
    k = p["k"]
    if k in ("Wild",):
        return None
    if k == "Binding":
        return pat_variants(p["sub"]) if p.get("sub") else None
    if k in ("Ref", "Box", "Deref"):
        return pat_variants(p["pat"])
    if k == "Or":
        out = set()
        for x in p["pats"]:
            v = pat_variants(x)
            if v is None:
                return None
            out |= v
        return out
    if k in ("TupleStruct", "Struct"):
        return {variant_of(p["path"])}
    if k == "Expr" and p["expr"]["k"] == "Path":
        return {variant_of(p["expr"]["path"])}
    if k == "Guard":
        return pat_variants(p["pat"])
    raise Unrecognised("pattern kind %s" % k, p)


def variant_of(path):
    """resolved variant name for a Ctor / Variant path"""
    d = path.get("def") or path.get("text")
    dk = path.get("defkind", "")
    if dk.startswith("Ctor") and path.get("parent"):
        d = path["parent"]
    return d.rsplit("::", 1)[-1]


def variant_full(path):
    d = path.get("def") or path.get("text")
    dk = path.get("defkind", "")
    if dk.startswith("Ctor") and path.get("parent"):
        d = path["parent"]
    return d


def top_match(fn_item, scrut=None):
    """the `match` that forms the value of a function body (after `use` items / let-free blocks).
    Returns the Match node or raises Unrecognised."""
    e = strip(fn_item["body"])
    while e["k"] == "Block":
        real = [s for s in e["stmts"] if s["k"] != "Item"]
        if real or not e.get("expr"):
            # allow a single statement-expression match
            if len(real) == 1 and real[0]["k"] in ("Expr", "Semi") and not e.get("expr"):
                e = strip(real[0]["expr"])
                continue
            raise Unrecognised("%s: body is not a single match" % fn_item["name"], e)
        e = strip(e["expr"])
    if e["k"] != "Match":
        raise Unrecognised("%s: body is not a match (found %s)" % (fn_item["name"], e["k"]), e)
    return e


def arms_by_variant(m, allow_wild=False):
    """[(variant name, arm, pattern-for-that-variant)] expanding or-patterns; a wildcard arm yields ('_', arm, pat)"""
    out = []
    for a in m["arms"]:
        for p in flatten_or(a["pat"]):
            q = p
            while q["k"] in ("Ref", "Box", "Deref") or (q["k"] == "Binding" and q.get("sub")):
                q = q["pat"] if q["k"] != "Binding" else q["sub"]
            if q["k"] in ("Wild", "Binding"):
                out.append(("_", a, q))
            elif q["k"] in ("TupleStruct", "Struct"):
                out.append((variant_of(q["path"]), a, q))
            elif q["k"] == "Expr" and q["expr"]["k"] == "Path":
                out.append((variant_of(q["expr"]["path"]), a, q))
            elif q["k"] == "Expr" and q["expr"]["k"] == "Lit":
                out.append((q["expr"]["lit"]["v"], a, q))
            else:
                raise Unrecognised("arm pattern %s" % q["k"], q)
    return out


def flatten_or(p):
    if p["k"] == "Or":
        out = []
        for x in p["pats"]:
            out.extend(flatten_or(x))
        return out
    return [p]


def pat_bindings(q):
    """positional bindings of a TupleStruct pattern: [name or None]"""
    if q["k"] != "TupleStruct":
        return []
    out = []
    for x in q["pats"]:
        y = x
        while y["k"] in ("Ref", "Box", "Deref"):
            y = y["pat"]
        out.append(y["name"] if y["k"] == "Binding" else None)
    return out


# ---- named temporaries ------------------------------------------------------------------------------------------------------------------
def let_env(body):
    """{hid: init expr} of the immutable simple `let x = init;` bindings of a body (closures included).  A rule that compares SHAPES uses it
    (through `through_lets`) so that `let n = k.chars().count(); if a + n > b` reads like `if a + k.chars().count() > b`."""
    env = {}
    for n in walk(body):
        if n.get("k") == "Let" and n.get("init") is not None and not n.get("els"):
            q = n["pat"]
            if q.get("k") == "Binding" and "Mut" not in (q.get("mode") or "").split(",")[-1] and not q.get("sub") and q.get("hid") is not None:
                env[q["hid"]] = n["init"]
            elif q.get("k") == "Struct" and field_path(n["init"]) is not None and not n.get("els"):
                # `let Task { budget: b, sentence: s } = self;` -- each binding is that field of the (pure) place
                for fd in q.get("fields", []):
                    sub = fd.get("pat", {})
                    if sub.get("k") == "Binding" and "Mut" not in (sub.get("mode") or "").split(",")[-1] and not sub.get("sub") and sub.get("hid") is not None:
                        env[sub["hid"]] = {"k": "Field", "e": n["init"], "name": fd["name"], "line": n.get("line"), "exp": False}
            elif q.get("k") == "Slice" and strip(n["init"]).get("k") == "Array" and not q.get("slice") \
                    and len(q.get("before", [])) + len(q.get("after", []) or []) == len(strip(n["init"])["elems"]):
                # `let [a, b, c] = [x, y, z];` (the array parameter of an inlined helper): each binding is the element at its position
                for sub, el in zip(list(q.get("before", [])) + list(q.get("after", []) or []), strip(n["init"])["elems"]):
                    if sub.get("k") == "Binding" and "Mut" not in (sub.get("mode") or "").split(",")[-1] and not sub.get("sub") and sub.get("hid") is not None:
                        env[sub["hid"]] = el
            elif q.get("k") == "Tuple" and strip(n["init"]).get("k") == "Tup" and len(strip(n["init"])["elems"]) == len(q.get("pats", [])):
                # `let (previous, current) = (chars[i - 1], chars[i]);` -- each binding is the element at its position
                for sub, el in zip(q["pats"], strip(n["init"])["elems"]):
                    if sub.get("k") == "Binding" and "Mut" not in (sub.get("mode") or "").split(",")[-1] and not sub.get("sub") and sub.get("hid") is not None:
                        env[sub["hid"]] = el
            elif q.get("k") == "Tuple" and field_path(n["init"]) is not None:
                # `let (l, r) = self.format.sentence.truth_brackets;` -- each binding is the corresponding field of the (pure) place
                for i_, sub in enumerate(q.get("pats", [])):
                    if sub.get("k") == "Binding" and "Mut" not in (sub.get("mode") or "").split(",")[-1] and not sub.get("sub") and sub.get("hid") is not None:
                        env[sub["hid"]] = {"k": "Field", "e": n["init"], "name": str(i_), "line": n.get("line"), "exp": False}
    return env


def through_lets(e, env, depth=6):
    """copy of expression `e` in which every use of an immutable named temporary is replaced by its initialiser (transitively).  Sound for
    shape comparison only when the initialiser reads nothing that is written between the `let` and the use; callers use it on conditions whose
    operands are parameters, immutable locals and pure std calls."""
    if not isinstance(e, dict) or depth <= 0:
        return e
    if e.get("k") == "Path" and e.get("path", {}).get("res") == "local" and e["path"].get("hid") in env:
        return through_lets(env[e["path"]["hid"]], env, depth - 1)
    out = {}
    for k, v in e.items():
        if isinstance(v, dict):
            out[k] = through_lets(v, env, depth)
        elif isinstance(v, list):
            out[k] = [through_lets(x, env, depth) if isinstance(x, dict) else x for x in v]
        else:
            out[k] = v
    return out


# ---- variant tests ----------------------------------------------------------------------------------------------------------------------
_IS_VARIANT = {"is_none": "None", "is_some": "Some", "is_ok": "Ok", "is_err": "Err"}


def _binds(p):
    return any(n.get("k") == "Binding" for n in walk(p))


def variant_test(c):
    """(subject expr, variant name, positive) of a condition that only asks "is this value that variant?", however it is spelled:
    `matches!(x, P)` (a match with the arms `P => true, _ => false`), `x.is_none()` / is_some / is_ok / is_err, `x == Enum::Unit` / `!=`;
    else None."""
    c = strip(c)
    while c.get("k") == "DropTemps":
        c = strip(c["e"])
    if c.get("k") == "Match" and len(c.get("arms", [])) == 2 and "Desugar" not in c.get("source", "") and not any(a.get("guard") for a in c["arms"]):
        a0, a1 = c["arms"]
        b0, b1 = strip(a0["body"]), strip(a1["body"])
        if all(b.get("k") == "Lit" and isinstance(b["lit"].get("v"), bool) for b in (b0, b1)) and b0["lit"]["v"] != b1["lit"]["v"] \
                and a1["pat"].get("k") == "Wild" and not _binds(a0["pat"]):
            try:
                v = pat_variants(a0["pat"])
            except Unrecognised:
                return None
            if v is not None and len(v) == 1:
                return c["scrut"], str(list(v)[0]), bool(b0["lit"]["v"])
        return None
    if c.get("k") == "MethodCall" and c.get("method") in _IS_VARIANT and not c.get("args") \
            and (c.get("def") or "").startswith(("std::option::Option", "std::result::Result", "core::option::Option", "core::result::Result")):
        return c["recv"], _IS_VARIANT[c["method"]], True
    if c.get("k") == "Binary" and c.get("op") in ("==", "Eq", "!=", "Ne"):
        for a, b in ((c["l"], c["r"]), (c["r"], c["l"])):
            b0 = strip(b)
            while b0.get("k") in ("AddrOf", "Deref") or (b0.get("k") == "Unary" and b0.get("op") in ("*", "Deref")):
                b0 = strip(b0["e"])
            if b0.get("k") == "Path" and b0.get("path", {}).get("defkind", "").startswith("Ctor(Variant, Const"):
                return a, variant_of(b0["path"]), c["op"] in ("==", "Eq")
    return None


def decision(e):
    """([(subject expr, variant, positive)], then, else) of a two-way decision that consists of variant tests only:
    `if t1 && t2 { A } else { B }` with every conjunct a variant test, or `match (s1, s2) { (P1, P2) => A, _ => B }` with binding-free
    patterns (a wildcard position tests nothing); else None."""
    e = strip(e)
    if e.get("k") == "Match" and len(e.get("arms", [])) == 2 and "Desugar" not in e.get("source", "") and "ForLoop" not in e.get("source", "") \
            and not any(a.get("guard") for a in e["arms"]) and e["arms"][1]["pat"].get("k") == "Wild" and not _binds(e["arms"][0]["pat"]):
        q, sc = e["arms"][0]["pat"], strip(e["scrut"])
        while q.get("k") in ("Ref", "Box", "Deref"):
            q = q["pat"]
        pairs = list(zip(sc["elems"], q["pats"])) if q.get("k") == "Tuple" and sc.get("k") == "Tup" and len(sc["elems"]) == len(q["pats"]) and q.get("ddpos") is None \
            else [(e["scrut"], q)] if q.get("k") != "Tuple" else None
        if pairs is None:
            return None
        tests = []
        for x, sub in pairs:
            try:
                v = pat_variants(sub)
            except Unrecognised:
                return None
            if v is None:
                continue
            if len(v) != 1:
                return None
            tests.append((x, str(list(v)[0]), True))
        return (tests, e["arms"][0]["body"], e["arms"][1]["body"]) if tests else None
    br = as_branch(e)
    if br is None or strip(br[0]).get("k") == "LetExpr":
        return None
    tests = []
    for c in conjuncts(br[0]):
        vt = variant_test(c)
        if vt is None:
            return None
        tests.append(vt)
    return tests, br[1], br[2]


def result_expr(e):
    """the value an expression / block ends in: the operand of a trailing `return`, else the tail expression"""
    e = strip(e)
    if e.get("k") == "Block":
        real = [s for s in e.get("stmts", []) if s["k"] != "Item"]
        if e.get("expr") is not None:
            return result_expr(e["expr"])
        if real and real[-1]["k"] in ("Semi", "Expr"):
            return result_expr(real[-1]["expr"])
        return e
    if e.get("k") == "Ret" and e.get("e") is not None:
        return strip(e["e"])
    return e


def two_results(body):
    """(condition, value when it holds, value when it does not) of a function body that is ONE two-way decision, in any spelling:
    `if c {A} else {B}` / `match c {true => A, false => B}` as the tail, or a guard clause `if c { return A }` followed by REST ending in B
    (leading `!` folded into the order, see as_branch).  Values are read with result_expr; named temporaries of REST are NOT substituted
    (callers use through_lets with let_env(body)).  None for any other shape."""
    b = strip(body)
    if b.get("k") != "Block":
        br = as_branch(b)
        return (br[0], result_expr(br[1]), result_expr(br[2])) if br and br[1] is not None and br[2] is not None else None
    real = [s for s in b.get("stmts", []) if s["k"] != "Item"]
    for i, s in enumerate(real):
        if s["k"] in ("Semi", "Expr"):
            br = as_branch(s["expr"])
            if br is None:
                return None
            c, t, el = br
            rest = {"k": "Block", "stmts": real[i + 1:], "expr": b.get("expr")}
            if t is not None and leaves(t) and el is None:
                return c, result_expr(t), result_expr(rest)
            if el is not None and leaves(el) and t is None:
                return c, result_expr(rest), result_expr(el)
            return None
        if s["k"] != "Let":
            return None
    if b.get("expr") is not None:
        br = as_branch(b["expr"])
        if br and br[1] is not None and br[2] is not None:
            return br[0], result_expr(br[1]), result_expr(br[2])
    return None


# ---- branches ---------------------------------------------------------------------------------------------------------------------------
def as_branch(e):
    """(cond, then, else|None) of an `if` / two-armed bool `match`, leading negations of the condition folded into the branch order"""
    if e is None:
        return None
    e = strip(e)
    while e.get("k") == "DropTemps":
        e = strip(e["e"])
    c = t = el = None
    if e.get("k") == "If":
        c, t, el = e["cond"], e["then"], e.get("else")
        # `if a { if b { X } }` (nothing else in the outer branch, no else on either) is `if a && b { X }`
        while el is None and strip(c).get("k") != "LetExpr":
            inner = _sole_if(t)
            if inner is None or inner.get("else") is not None or strip(inner["cond"]).get("k") == "LetExpr":
                break
            c = {"k": "Binary", "op": "&&", "l": c, "r": inner["cond"], "ty": "bool", "line": e.get("line"), "exp": False}
            t = inner["then"]
    elif e.get("k") == "Match" and len(e["arms"]) == 2 and "Desugar" not in e.get("source", "") and "ForLoop" not in e.get("source", ""):
        bools = {}
        for a in e["arms"]:
            q = a["pat"]
            if a.get("guard"):
                return None
            if q.get("k") == "Expr" and q["expr"].get("k") == "Lit" and isinstance(q["expr"]["lit"].get("v"), bool):
                bools[q["expr"]["lit"]["v"]] = a
            elif q.get("k") == "Wild":
                bools.setdefault("_", a)
        if len(bools) != 2 or not (True in bools or False in bools):
            return None
        t_arm = bools.get(True, bools.get("_"))
        f_arm = bools.get(False, bools.get("_"))
        c, t, el = e["scrut"], t_arm["body"], f_arm["body"]
    else:
        return None
    c = strip(c)
    while True:
        while c.get("k") == "DropTemps":
            c = strip(c["e"])
        if c.get("k") == "Unary" and c.get("op") in ("!", "Not"):
            c = strip(c["e"])
            t, el = el, t
            continue
        dm = _de_morgan(c)
        if dm is not None:          # `!a || !b` == `!(a && b)`, `!a && !b` == `!(a || b)`
            c = dm
            t, el = el, t
            continue
        # comparisons: `a >= b` is `!(a < b)`, `a <= b` is `!(b < a)`, `a != b` is `!(a == b)`, `a > b` is `b < a` -- only `<` and `==` remain,
        # so `while i < n {..}` and `loop { if i >= n { break } .. }` have the same polarity
        if c.get("k") == "Binary" and c.get("op") in _CMP_NEG:
            op2, swap = _CMP_NEG[c["op"]]
            c = dict(c, op=op2, l=(c["r"] if swap else c["l"]), r=(c["l"] if swap else c["r"]))
            t, el = el, t
            continue
        if c.get("k") == "Binary" and c.get("op") in (">", "Gt"):
            c = dict(c, op="<" if c["op"] == ">" else "Lt", l=c["r"], r=c["l"])
            continue
        break
    return c, t, el


_CMP_NEG = {">=": ("<", False), "Ge": ("Lt", False), "<=": ("<", True), "Le": ("Lt", True), "!=": ("==", False), "Ne": ("Eq", False)}


def _sole_if(t):
    """the `if` a block consists of (and nothing else), else None"""
    if t is None:
        return None
    t = strip(t)
    while t.get("k") == "DropTemps":
        t = strip(t["e"])
    if t.get("k") == "If":
        return t
    if t.get("k") == "Block":
        items = [s_ for s_ in t["stmts"] if s_.get("k") != "Item"]
        if len(items) == 1 and not t.get("expr") and items[0].get("k") in ("Semi", "Expr"):
            return _sole_if(items[0]["expr"])
        if not items and t.get("expr"):
            return _sole_if(t["expr"])
    return None


_DUAL = {"||": "&&", "&&": "||", "Or": "And", "And": "Or"}


def _de_morgan(c):
    """for a `||` (or `&&`) tree ALL of whose leaves are negations: the dual tree over the un-negated leaves; for a `||` tree with SOME
    negated leaves (`a || !b`): the `&&` tree over the complemented leaves (`!a && b`) -- the caller swaps the branches in both cases; a tree
    without any negated leaf is left alone (None)"""
    if c.get("k") != "Binary" or c.get("op") not in _DUAL:
        return None
    op = c["op"]

    def leaves_(n):
        n = strip(n)
        while n.get("k") == "DropTemps":
            n = strip(n["e"])
        if n.get("k") == "Binary" and n.get("op") == op:
            return leaves_(n["l"]) + leaves_(n["r"])
        return [n]
    negs = [n.get("k") == "Unary" and n.get("op") in ("!", "Not") for n in leaves_(c)]
    if not any(negs) or (not all(negs) and op not in ("||", "Or")):
        return None

    def conv(n):
        n = strip(n)
        while n.get("k") == "DropTemps":
            n = strip(n["e"])
        if n.get("k") == "Binary" and n.get("op") == op:
            return dict(n, op=_DUAL[op], l=conv(n["l"]), r=conv(n["r"]))
        if n.get("k") == "Unary" and n.get("op") in ("!", "Not"):
            return strip(n["e"])
        return {"k": "Unary", "op": "!", "e": n, "ty": "bool", "line": n.get("line"), "exp": False}
    return conv(c)

def leaves(e):
    """does control never fall out of the end of expression/block `e`? (return / break / continue on every path)"""
    if e is None:
        return False
    e = strip(e)
    k = e.get("k")
    if k in ("Ret", "Break", "Continue"):
        return True
    if k == "DropTemps":
        return leaves(e["e"])
    if k == "Block":
        for st in e["stmts"]:
            if st["k"] in ("Semi", "Expr") and leaves(st["expr"]):
                return True
        return leaves(e.get("expr"))
    br = as_branch(e)
    if br:
        return br[1] is not None and br[2] is not None and leaves(br[1]) and leaves(br[2])
    return False

