"""Pretty printer for the HIR JSON (debug aid + used in evidence samples)."""

def path_s(p):
    if p is None: return "?"
    if p.get("res") == "def": return p["def"]
    if p.get("res") == "local": return p["name"]
    return p.get("text") or p.get("def") or p.get("res")

def pat(p):
    k = p["k"]
    if k == "Wild": return "_"
    if k == "Binding":
        s = p["name"]
        if p.get("sub"): s += " @ " + pat(p["sub"])
        return s
    if k == "TupleStruct":
        ps = [pat(x) for x in p["pats"]]
        if p.get("ddpos") is not None: ps.insert(p["ddpos"], "..")
        return "%s(%s)" % (path_s(p["path"]), ", ".join(ps))
    if k == "Struct":
        return "%s{%s%s}" % (path_s(p["path"]), ", ".join("%s: %s" % (f["name"], pat(f["pat"])) for f in p["fields"]), ", .." if p["rest"] else "")
    if k == "Or": return " | ".join(pat(x) for x in p["pats"])
    if k == "Tuple":
        ps = [pat(x) for x in p["pats"]]
        if p.get("ddpos") is not None: ps.insert(p["ddpos"], "..")
        return "(%s)" % ", ".join(ps)
    if k in ("Box", "Deref"): return "box " + pat(p["pat"])
    if k == "Ref": return "&" + pat(p["pat"])
    if k == "Expr": return patexpr(p["expr"])
    if k == "Range":
        return "%s%s%s" % (patexpr(p["lo"]) if p["lo"] else "", "..=" if p["inclusive"] else "..", patexpr(p["hi"]) if p["hi"] else "")
    if k == "Guard": return "%s if %s" % (pat(p["pat"]), expr(p["guard"]))
    return k

def patexpr(e):
    if e["k"] == "Lit": return lit(e["lit"])
    return path_s(e["path"])

def lit(l):
    v = l["v"]
    if l["lit"] == "str": return '"%s"' % v
    if l["lit"] == "char": return "'%s'" % v
    if l["lit"] == "bool": return "true" if v else "false"
    return ("-" if l.get("neg") else "") + str(v)

def block(b, ind):
    out = ["{"]
    for s in b["stmts"]:
        out.append("  " * (ind + 1) + stmt(s, ind + 1))
    if b.get("expr"):
        out.append("  " * (ind + 1) + expr(b["expr"], ind + 1))
    out.append("  " * ind + "}")
    return "\n".join(out)

def stmt(s, ind):
    k = s["k"]
    if k == "Let":
        r = "let %s" % pat(s["pat"])
        if s.get("init"): r += " = " + expr(s["init"], ind)
        if s.get("els"): r += " else " + block(s["els"], ind)
        return r + ";"
    if k in ("Expr", "Semi"): return expr(s["expr"], ind) + (";" if k == "Semi" else "")
    return "<item>"

def expr(e, ind=0):
    if e is None: return ""
    k = e["k"]
    if k == "Lit": return lit(e["lit"])
    if k == "Path": return path_s(e["path"])
    if k == "Call": return "%s(%s)" % (expr(e["f"], ind), ", ".join(expr(a, ind) for a in e["args"]))
    if k == "MethodCall": return "%s.%s[%s](%s)" % (expr(e["recv"], ind), e["method"], e.get("def"), ", ".join(expr(a, ind) for a in e["args"]))
    if k == "Field": return "%s.%s" % (expr(e["e"], ind), e["name"])
    if k == "Tup": return "(%s)" % ", ".join(expr(a, ind) for a in e["elems"])
    if k == "Array": return "[%s]" % ", ".join(expr(a, ind) for a in e["elems"])
    if k == "Binary": return "(%s %s %s)" % (expr(e["l"], ind), e["op"], expr(e["r"], ind))
    if k == "Unary": return "%s%s" % (e["op"], expr(e["e"], ind))
    if k == "AddrOf": return "&%s%s" % ("mut " if e["mut"] else "", expr(e["e"], ind))
    if k == "Block": return block(e, ind)
    if k == "If":
        r = "if %s %s" % (expr(e["cond"], ind), expr(e["then"], ind))
        if e.get("else"): r += " else " + expr(e["else"], ind)
        return r
    if k == "Match":
        out = ["match %s {" % expr(e["scrut"], ind)]
        for a in e["arms"]:
            g = (" if " + expr(a["guard"], ind)) if a.get("guard") else ""
            out.append("  " * (ind + 1) + "%s%s => %s," % (pat(a["pat"]), g, expr(a["body"], ind + 1)))
        out.append("  " * ind + "}")
        return "\n".join(out)
    if k == "LetExpr": return "let %s = %s" % (pat(e["pat"]), expr(e["init"], ind))
    if k == "Loop": return "loop[%s] %s" % (e["source"], block(e["body"], ind))
    if k == "Closure": return "|%s| %s" % (", ".join(pat(p) for p in e["params"]), expr(e["body"], ind))
    if k == "Assign": return "%s = %s" % (expr(e["l"], ind), expr(e["r"], ind))
    if k == "AssignOp": return "%s %s %s" % (expr(e["l"], ind), e["op"], expr(e["r"], ind))
    if k == "Index": return "%s[%s]" % (expr(e["e"], ind), expr(e["idx"], ind))
    if k == "Ret": return "return %s" % expr(e.get("e"), ind)
    if k == "Break": return "break %s" % expr(e.get("e"), ind)
    if k == "Continue": return "continue"
    if k == "Struct":
        r = "%s { %s" % (path_s(e["path"]), ", ".join("%s: %s" % (f["name"], expr(f["expr"], ind)) for f in e["fields"]))
        if e.get("base"): r += ", .." + expr(e["base"], ind)
        return r + " }"
    if k in ("Cast", "Type", "Repeat", "Yield", "Become"): return "%s(%s)" % (k, expr(e["e"], ind))
    return "<%s>" % k

if __name__ == "__main__":
    import json, sys
    d = json.load(open(sys.argv[1]))
    for it in d["hir"]:
        if any(a in it["path"] for a in sys.argv[2:]):
            print("// %s [%s] %s:%s" % (it["path"], it["defkind"], it["span"]["file"], it["span"]["line"]))
            print("fn(%s) %s\n" % (", ".join(pat(p) for p in it["params"]), expr(it["body"])))
