"""New helper functions are transparent.

The reviewed references (skeleton tables, shape rules, anchors by function name) describe the functions that existed when they were reviewed;
checks/tables/known_functions.json lists them.  "Extract function" moves a piece of a reviewed function into a NEW private function and leaves
a call behind -- behaviour is unchanged, but every rule that looks for a construct inside the reviewed function would no longer find it.  So,
when the facts are loaded, each call from a function to a crate function that is NOT in the known list is replaced (in the HIR view only) by
the callee's body:
    helper(a, b)      ->   { let <p2> = b;  <body with p1 := a> }
  * a parameter whose argument is a plain path / literal / borrow of one is substituted, any other argument is bound by a `let` in front
    (evaluated once, in order);
  * local ids of the inlined body are prefixed so that they cannot collide with the caller's;
  * `use` items are dropped; nested calls to further new functions are inlined too (depth <= 3, no recursion);
  * a `return` inside the inlined body is kept as it is.  It then reads as a return of the CALLER, which is exact when the call is in tail /
    `return helper(..)` / `helper(..)?` position for the error case and an approximation otherwise; the rules that depend on exact control flow
    work on MIR and are not affected by this view.
The new functions themselves stay in the fact base (they are linted, counted and listed as `unreviewed_new_functions`).  MIR is untouched:
a may-panic site or a validated-constructor call that moves into a new function is handled by the MIR rules' own caller propagation or is
reported for review."""
import copy, json, os

TABLE = os.path.join(os.path.dirname(os.path.dirname(os.path.abspath(__file__))), "tables", "known_functions.json")
MAXD = 3


def known_table():
    try:
        return json.load(open(TABLE, encoding="utf-8"))["functions"]
    except OSError:
        return None


def known():
    t = known_table()
    return None if t is None else set(t)


def signature(body):
    """parameter types + return type of a MIR body (text as rustc prints it)"""
    return [body["locals"][i]["ty"] for i in range(1, body["arg_count"] + 1)] + ["-> " + body["locals"][0]["ty"]]


def call_fingerprint(body):
    """names of the functions a MIR body calls, in block order (used only to tell apart renamed functions that share parent and signature)"""
    out = []
    for bl in body["blocks"]:
        t = bl["term"]
        if t["k"] == "Call" and not bl.get("cleanup"):
            fn_ = (t["func"].get("fn") or {})
            out.append(fn_.get("name") or "?")
    return out


def fn_paths(facts):
    """{normalised path: {"sig": signature, "params": [[name, type], ..]}} of every function of the crate"""
    mir_by_norm = {facts.norm(p): b for p, b in facts.mir.items() if b.get("promoted") is None}
    out = {}
    for p, it in facts.hir.items():
        if it["defkind"] in ("Fn", "AssocFn"):
            n = facts.norm(p)
            b = mir_by_norm.get(n)
            out[n] = {"sig": signature(b) if b is not None else None,
                      "params": [[b["locals"][i]["name"], b["locals"][i]["ty"]] for i in range(1, b["arg_count"] + 1)] if b is not None else None,
                      "calls": call_fingerprint(b) if b is not None else None}
    return dict(sorted(out.items()))


# ---- reordered parameters of private functions --------------------------------------------------------------------------------------------
def _perm_locals(n, m):
    if isinstance(n, list):
        return [_perm_locals(x, m) for x in n]
    if not isinstance(n, dict):
        return n
    return {k: (m.get(v, v) if (k == "local" and type(v) is int) else _perm_locals(v, m)) for k, v in n.items()}


def apply_param_order(facts):
    """A non-public reviewed function whose parameter list is a PERMUTATION of the reviewed one (same names and types, other order) is put
    back into the reviewed order -- parameters of the item, argument locals of its MIR body and the arguments of every call -- so that
    positional keys keep their meaning.  Reported in the evidence."""
    tab = known_table()
    if not isinstance(tab, dict):
        return {}
    done = {}
    for p, b in list(facts.mir.items()):
        if b.get("promoted") is not None or b["defkind"] not in ("Fn", "AssocFn") or "Public" in str(b.get("vis")):
            continue
        ent = tab.get(facts.norm(p))
        if not isinstance(ent, dict) or not ent.get("params"):
            continue
        ref = [tuple(x) for x in ent["params"]]
        cur = [(b["locals"][i]["name"], b["locals"][i]["ty"]) for i in range(1, b["arg_count"] + 1)]
        if len(ref) != len(cur) or [t for n, t in ref] == [t for n, t in cur] or sorted(ref) != sorted(cur) or len(set(cur)) != len(cur):
            continue
        perm = [cur.index(x) for x in ref]          # reviewed position j <- current position perm[j]
        done[p] = perm
        # MIR body: renumber the argument locals
        m = {perm[j] + 1: j + 1 for j in range(len(perm))}
        nb = _perm_locals({"blocks": b["blocks"], "debug": b.get("debug")}, m)
        b["blocks"], b["debug"] = nb["blocks"], nb["debug"]
        args = b["locals"][1:1 + len(perm)]
        b["locals"][1:1 + len(perm)] = [args[perm[j]] for j in range(len(perm))]
    if not done:
        return {}
    by_norm = {facts.norm(p): perm for p, perm in done.items()}
    # MIR call sites
    import mir
    for p, b in facts.mir.items():
        for bl in b["blocks"]:
            t = bl["term"]
            if t["k"] == "Call":
                cp = mir.callee_path(t)
                perm = by_norm.get(facts.norm(cp)) if cp else None
                if perm and len(t["args"]) == len(perm):
                    t["args"] = [t["args"][perm[j]] for j in range(len(perm))]
    # HIR items and call sites
    import hir as H
    for p, it in facts.hir.items():
        perm = by_norm.get(facts.norm(p))
        if perm and len(it.get("params", [])) == len(perm):
            it["params"] = [it["params"][perm[j]] for j in range(len(perm))]
    for p, it in facts.hir.items():
        if it.get("body") is None:
            continue
        for n in H.walk(it["body"]):
            if n.get("k") == "Call":
                f_ = H.strip(n["f"])
                d = f_["path"].get("def") if f_.get("k") == "Path" and f_["path"].get("res") == "def" else None
                perm = by_norm.get(facts.norm(d)) if d else None
                if perm and len(n["args"]) == len(perm):
                    n["args"] = [n["args"][perm[j]] for j in range(len(perm))]
            elif n.get("k") == "MethodCall":
                perm = by_norm.get(facts.norm(n.get("def") or "")) if n.get("def") else None
                if perm and len(n["args"]) + 1 == len(perm) and perm[0] == 0:
                    n["args"] = [n["args"][perm[j] - 1] for j in range(1, len(perm))]
    return {facts.norm(p): perm for p, perm in done.items()}


# ---- renamed private functions -----------------------------------------------------------------------------------------------------------
def apply_renames(facts):
    """A reviewed function that is gone while a NEW function with the same parent (module / impl), the same signature and no public
    visibility appeared is that function under another name (unique candidate only).  The fact base is rewritten to the reviewed name --
    item, MIR body and every call reference -- so that anchors, tables and keys keep working; the mapping is reported in the evidence."""
    tab = known_table()
    if tab is None:
        return {}
    cur_mir = {facts.norm(p): (p, b) for p, b in facts.mir.items() if b.get("promoted") is None and b["defkind"] in ("Fn", "AssocFn")}
    cur = set(facts.norm(p) for p, it in facts.hir.items() if it["defkind"] in ("Fn", "AssocFn"))
    gone = [k for k in tab if k not in cur and "::tests::" not in k and "::test::" not in k and isinstance(tab[k], dict) and tab[k].get("sig")]
    new = [n for n in cur if n not in tab and "::tests::" not in n and "::test::" not in n]
    mapping = {}
    used = set()
    for old in gone:
        parent = old.rsplit("::", 1)[0]
        cands = [n for n in new if n.rsplit("::", 1)[0] == parent and n in cur_mir and n not in used
                 and signature(cur_mir[n][1]) == tab[old]["sig"] and "Public" not in str(cur_mir[n][1].get("vis"))]
        if len(cands) > 1 and tab[old].get("calls") is not None:
            # several renamed siblings with one signature (head_skip_and_spaces / head_skip_after_spaces): the one that calls the same functions
            # in the same order
            same = [n for n in cands if call_fingerprint(cur_mir[n][1]) == tab[old]["calls"]]
            if len(same) == 1:
                cands = same
        if len(cands) == 1:
            mapping[cands[0]] = old
            used.add(cands[0])
    if not mapping:
        return {}
    names = {n.rsplit("::", 1)[-1]: o.rsplit("::", 1)[-1] for n, o in mapping.items()}

    def fix_path(sv):
        """a def-path string that denotes a renamed function -> the same string with the reviewed name"""
        if not isinstance(sv, str) or "::" not in sv:
            return sv
        n = facts.norm(sv)
        if n in mapping:
            last = n.rsplit("::", 1)[-1]
            i = sv.rfind("::" + last)
            if i >= 0:
                return sv[:i] + "::" + names[last] + sv[i + 2 + len(last):]
        # closures and other items nested in a renamed function
        for nn, oo in mapping.items():
            if n.startswith(nn + "::"):
                last = nn.rsplit("::", 1)[-1]
                j = sv.find("::" + last + "::")
                if j >= 0:
                    return sv[:j] + "::" + names[last] + sv[j + 2 + len(last):]
        return sv

    def walk(x):
        if isinstance(x, list):
            for y in x:
                walk(y)
            return
        if not isinstance(x, dict):
            return
        hit = False
        for k in ("def", "resolved", "def_with_args", "path", "parent", "closure"):
            v = x.get(k)
            if isinstance(v, str):
                v2 = fix_path(v)
                if v2 != v:
                    x[k] = v2
                    hit = hit or k in ("def", "resolved", "path")
        if hit:
            for k in ("name", "method", "text"):
                if x.get(k) in names:
                    x[k] = names[x[k]]
        for v in x.values():
            if isinstance(v, (dict, list)):
                walk(v)

    walk(facts.raw.get("hir"))
    walk(facts.raw.get("mir"))
    # rebuild the indices under the reviewed paths
    facts.hir = {}
    for it in facts.raw["hir"]:
        facts.hir.setdefault(it["path"], it)
    facts.mir, facts.promoted = {}, {}
    for b in facts.raw["mir"]:
        if b.get("promoted") is not None:
            facts.promoted[(b["path"], b["promoted"])] = b
        else:
            facts.mir.setdefault(b["path"], b)
    return mapping


def _simple(e):
    """an argument that can be substituted for its parameter without duplicating work"""
    while e.get("k") == "Block" and not e["stmts"] and e.get("expr"):
        e = e["expr"]
    k = e.get("k")
    if k in ("Path", "Lit"):
        return True
    if k in ("AddrOf", "Field", "DropTemps") or (k == "Unary" and e.get("op") in ("*", "Deref")):
        return _simple(e["e"])
    return False


def _bound_hids(n, acc=None):
    """ids of every binding introduced inside `n` (parameters, lets, arm patterns, nested closure parameters)"""
    acc = set() if acc is None else acc
    if isinstance(n, list):
        for x in n:
            _bound_hids(x, acc)
    elif isinstance(n, dict):
        if n.get("k") == "Binding" and isinstance(n.get("hid"), str):
            acc.add(n["hid"])
        for v in n.values():
            if isinstance(v, (dict, list)):
                _bound_hids(v, acc)
    return acc


def _rename(n, tag, subst, bound=None):
    """deep copy of `n` with helper-local ids prefixed and parameter uses substituted; `bound` (closures): only these ids are the helper's
    own, every other local is a captured variable of the enclosing function and keeps its id"""
    if isinstance(n, list):
        return [_rename(x, tag, subst, bound) for x in n]
    if not isinstance(n, dict):
        return n
    if n.get("k") == "Path" and isinstance(n.get("path"), dict) and n["path"].get("res") == "local":
        h = n["path"].get("hid")
        if h in subst:
            return copy.deepcopy(subst[h])
        if bound is not None and h not in bound:
            return copy.deepcopy(n)
        m = dict(n)
        m["path"] = dict(n["path"], hid="%s:%s" % (tag, h))
        return m
    out = {}
    for k, v in n.items():
        if k == "hid" and isinstance(v, str) and (bound is None or v in bound):
            out[k] = "%s:%s" % (tag, v)
        else:
            out[k] = _rename(v, tag, subst, bound)
    return out


class Inliner:
    def __init__(self, facts, known_set):
        self.f = facts
        self.idx = {}
        dup = set()
        for p, it in facts.hir.items():
            if it["defkind"] not in ("Fn", "AssocFn") or it.get("body") is None:
                continue
            n = facts.norm(p)
            if n in self.idx:
                dup.add(n)
            self.idx[n] = it
        for n in dup:
            self.idx.pop(n, None)
        self.new = {n for n in self.idx if n not in known_set and "::tests::" not in n and "::test::" not in n}
        self.count = 0
        self.sites = []
        self.mir_sites = []
        self.closures = {}

    def scan_closures(self, body):
        """{hid: closure node} of the immutable `let f = |..| ..;` bindings of a function body whose EVERY use is a call `f(..)`: such a
        closure is a local helper and is as transparent as a new private function (`closure -> method` and back are then no difference)"""
        import hir as H
        cl, uses, calls = {}, {}, {}
        for n in H.walk(body):
            if n.get("k") == "Let" and isinstance(n.get("init"), dict) and n["pat"].get("k") == "Binding" and not n["pat"].get("sub") \
                    and "Mut" not in (n["pat"].get("mode") or "").split(",")[-1]:
                i_ = n["init"]
                while i_.get("k") == "Block" and not i_["stmts"] and i_.get("expr"):
                    i_ = i_["expr"]
                if i_.get("k") == "Closure":
                    cl[n["pat"]["hid"]] = (i_, n)
        if not cl:
            return {}
        for n in H.walk(body):
            if n.get("k") == "Path" and n.get("path", {}).get("res") == "local" and n["path"].get("hid") in cl:
                uses[n["path"]["hid"]] = uses.get(n["path"]["hid"], 0) + 1
            if n.get("k") == "Call":
                f_ = n["f"]
                while f_.get("k") == "Block" and not f_["stmts"] and f_.get("expr"):
                    f_ = f_["expr"]
                if f_.get("k") == "Path" and f_.get("path", {}).get("res") == "local" and f_["path"].get("hid") in cl:
                    calls[f_["path"]["hid"]] = calls.get(f_["path"]["hid"], 0) + 1
        return {h: v for h, v in cl.items() if uses.get(h, 0) == calls.get(h, 0) and uses.get(h, 0) > 0}

    def callee_item(self, n):
        d = None
        if n.get("k") == "Call":
            f_ = n["f"]
            while f_.get("k") == "Block" and not f_["stmts"] and f_.get("expr"):
                f_ = f_["expr"]
            if f_.get("k") == "Path" and f_.get("path", {}).get("res") == "local" and f_["path"].get("hid") in self.closures:
                c, let = self.closures[f_["path"]["hid"]]
                return {"path": "closure:%s" % f_["path"]["hid"], "params": c.get("params", []), "body": c["body"]}
        if n.get("k") == "MethodCall":
            d = n.get("def")
        elif n.get("k") == "Call":
            f_ = n["f"]
            while f_.get("k") == "Block" and not f_["stmts"] and f_.get("expr"):
                f_ = f_["expr"]
            if f_.get("k") == "Path" and f_["path"].get("res") == "def":
                d = f_["path"].get("def")
        if not d:
            return None
        nd = self.f.norm(d)
        return self.idx.get(nd) if nd in self.new else None

    @staticmethod
    def _inlined_block(e):
        """(block, rebuild) when `e` is an inlined helper body in statement position -- bare, or under `?` (`helper(..)?`): rebuild(tail)
        gives the expression that stands for the helper's VALUE once its statements have been hoisted into the enclosing block"""
        x = e
        while isinstance(x, dict) and x.get("k") == "DropTemps":
            x = x["e"]
        if isinstance(x, dict) and x.get("k") == "Block" and x.get("inlined_from") and x.get("stmts"):
            return x, (lambda tail: tail)
        if isinstance(x, dict) and x.get("k") == "Match" and "TryDesugar" in str(x.get("source", "")):
            sc = x.get("scrut") or {}
            if sc.get("k") == "Call" and len(sc.get("args") or []) == 1:
                a = sc["args"][0]
                if isinstance(a, dict) and a.get("k") == "Block" and a.get("inlined_from") and a.get("stmts"):
                    def rebuild(tail, x=x, sc=sc, a=a):
                        t2 = dict(tail) if isinstance(tail, dict) else {"k": "Tup", "elems": [], "line": a.get("line")}
                        t2["inlined_from"] = a["inlined_from"]
                        return dict(x, scrut=dict(sc, args=[t2]))
                    return a, rebuild
        return None, None

    def hoist(self, blk):
        """`helper(..)?;` / `let x = helper(..)?;` / `helper(..);` with the helper inlined: its statements become statements of the enclosing
        block (an early `return` in them then guards what follows, exactly as it did before the extraction)"""
        stmts = []
        for st in blk.get("stmts", []):
            key = "init" if st.get("k") == "Let" else "expr" if st.get("k") in ("Semi", "Expr") else None
            b, rebuild = self._inlined_block(st.get(key)) if key and isinstance(st.get(key), dict) else (None, None)
            if b is None:
                stmts.append(st)
                continue
            stmts += b["stmts"]
            tail = b.get("expr")
            if tail is None and st.get("k") != "Let":
                continue
            stmts.append(dict(st, **{key: rebuild(tail if tail is not None else {"k": "Tup", "elems": [], "line": b.get("line")})}))
        out = dict(blk, stmts=stmts)
        if isinstance(blk.get("expr"), dict):
            b, rebuild = self._inlined_block(blk["expr"])
            if b is not None:
                out["stmts"] = stmts + b["stmts"]
                out["expr"] = rebuild(b["expr"]) if b.get("expr") is not None else None
        return out

    def expand(self, n, depth, stack, owner):
        if isinstance(n, list):
            return [self.expand(x, depth, stack, owner) for x in n]
        if not isinstance(n, dict):
            return n
        out = {k: self.expand(v, depth, stack, owner) for k, v in n.items()}
        if out.get("k") == "Block" and self.count:
            out = self.hoist(out)
        if out.get("k") in ("Call", "MethodCall") and depth < MAXD:
            it = self.callee_item(out)
            if it is not None and it["path"] not in stack:
                args = ([out["recv"]] if out["k"] == "MethodCall" else []) + list(out["args"])
                params = it.get("params", [])
                if len(params) == len(args):
                    self.count += 1
                    tag = "i%d" % self.count
                    self.sites.append("%s -> %s" % (owner, it["path"]))
                    subst, lets = {}, []
                    bound = (_bound_hids(params) | _bound_hids(it["body"])) if str(it["path"]).startswith("closure:") else None
                    for q, a in zip(params, args):
                        if q.get("k") == "Binding" and not q.get("sub") and _simple(a) and "Mut" not in (q.get("mode") or "").split(",")[-1]:
                            subst[q["hid"]] = a
                        else:
                            lets.append({"k": "Let", "pat": _rename(q, tag, {}, bound), "init": a, "els": None, "line": out.get("line")})
                    body = _rename(it["body"], tag, subst, bound)
                    body = self.expand(body, depth + 1, stack + (it["path"],), owner)
                    while body.get("k") == "Block" and not [s for s in body["stmts"] if s.get("k") != "Item"] and body.get("expr") and not lets:
                        body = body["expr"]
                    if body.get("k") == "Block":
                        body = dict(body, stmts=lets + [s for s in body["stmts"] if s.get("k") != "Item"])
                    elif lets:
                        body = {"k": "Block", "stmts": lets, "expr": body, "ty": out.get("ty"), "line": out.get("line"), "exp": False}
                    body = dict(body)
                    body.setdefault("ty", out.get("ty"))
                    body["inlined_from"] = it["path"]
                    return body
        return out


def new_callee_bodies(facts, body, depth=0, seen=None):
    """MIR bodies of the NEW functions a MIR body calls (transitively, depth <= 3): rules that collect facts per reviewed function (which
    table fields it reads, ...) add what its new helpers contribute"""
    import mir
    seen = set() if seen is None else seen
    inl = getattr(facts, "inlined", None)
    if inl is None or not inl.new or depth >= MAXD:
        return []
    out = []
    for bl in body["blocks"]:
        t = bl["term"]
        if t["k"] != "Call":
            continue
        cp = mir.callee_path(t)
        if not cp or cp in seen:
            continue
        cb = facts.mir.get(cp)
        if cb is not None and facts.norm(cp) in inl.new:
            seen.add(cp)
            out.append(cb)
            out += new_callee_bodies(facts, cb, depth + 1, seen)
    return out


# ---- MIR ---------------------------------------------------------------------------------------------------------------------------------
def _ren_mir(n, lo, bo):
    """deep copy of a MIR fragment with locals shifted by `lo` and block indices by `bo`"""
    if isinstance(n, list):
        return [_ren_mir(x, lo, bo) for x in n]
    if not isinstance(n, dict):
        return n
    out = {}
    for k, v in n.items():
        if k == "local" and type(v) is int:
            out[k] = v + lo
        elif k in ("target", "unwind", "otherwise") and type(v) is int:
            out[k] = v + bo
        elif k == "targets" and isinstance(v, list):
            out[k] = [[x[0], x[1] + bo] for x in v]
        else:
            out[k] = _ren_mir(v, lo, bo)
    return out


def splice(caller, bi, callee):
    """replace the Call terminator of block `bi` by the callee's body: parameters are assigned from the arguments, `return` jumps to a landing
    block that moves the callee's return slot into the call's destination and continues at the call's target"""
    t = caller["blocks"][bi]["term"]
    lo, bo = len(caller["locals"]), len(caller["blocks"])
    if len(t["args"]) != callee["arg_count"]:
        return False
    for l in callee["locals"]:
        caller["locals"].append(dict(l, inlined=callee["path"]))
    nb = _ren_mir(callee["blocks"], lo, bo)
    landing = bo + len(nb)
    for b in nb:
        if b["term"]["k"] == "Return":
            b["term"] = {"k": "Goto", "target": landing, "line": b["term"].get("line"), "exp": b["term"].get("exp", False)}
        elif b["term"]["k"] == "UnwindResume" and type(t.get("unwind")) is int:
            b["term"] = {"k": "Goto", "target": t["unwind"], "line": b["term"].get("line"), "exp": True}
        b["inlined"] = callee["path"]
    line = t.get("line")
    for i, a in enumerate(t["args"]):
        caller["blocks"][bi]["stmts"].append({"k": "Assign", "place": {"local": lo + 1 + i, "proj": [], "ty": callee["locals"][1 + i]["ty"]},
                                               "rv": {"k": "Use", "op": a}, "line": line, "exp": False})
    caller["blocks"][bi]["term"] = {"k": "Goto", "target": bo, "line": line, "exp": False}
    land = {"stmts": [{"k": "Assign", "place": t["dest"], "rv": {"k": "Use", "op": {"k": "Move", "place": {"local": lo, "proj": [], "ty": callee["locals"][0]["ty"]}}},
                       "line": line, "exp": False}],
            "term": ({"k": "Goto", "target": t["target"], "line": line, "exp": False} if type(t.get("target")) is int
                     else {"k": "Unreachable", "line": line, "exp": False}),
            "cleanup": False, "inlined": callee["path"]}
    caller["blocks"] += nb + [land]
    _thread_try(caller, t, lo, bo, len(nb), landing)
    return True


def _thread_try(caller, call_t, lo, bo, n_inl, landing):
    """jump threading for `helper(..)?`: a return of the spliced helper whose value is a literal `Ok(..)` / `Err(..)` continues, after
    `Try::branch`, on the Continue / Break edge respectively (std: Result's Try impl).  Without this the two outcomes merge in the landing
    block and a test made inside the helper no longer dominates what follows the `?`.  Pattern in the caller:
        B: _u = branch(move dest) -> C        C: _d = discriminant(_u); switchInt(_d) [0 -> cont, 1 -> brk]
    Each such return gets its own copy of landing, B and C, with C's switch replaced by the known edge."""
    blocks = caller["blocks"]
    B = call_t.get("target")
    if type(B) is not int:
        return
    bb = blocks[B]
    tb = bb["term"]
    if bb["stmts"] or tb["k"] != "Call" or (tb["func"].get("fn") or {}).get("name") != "branch" or len(tb["args"]) != 1:
        return
    a0 = tb["args"][0]
    if a0["k"] not in ("Move", "Copy") or a0["place"]["local"] != call_t["dest"]["local"] or a0["place"]["proj"] or call_t["dest"]["proj"]:
        return
    C = tb.get("target")
    if type(C) is not int:
        return
    # only for helpers that return `Result<(), E>` (validation steps: `check(..)?;`): the copies of B would give `_u` several definitions, which
    # is harmless when its Continue payload is `()` and would blur the value flow of a payload-carrying helper
    uty = str(caller["locals"][tb["dest"]["local"]]["ty"]).replace(" ", "")
    inner, depth, commas = uty[uty.find("<") + 1:-1] if "<" in uty else "", 0, 0
    for ch in inner:
        depth += ch == "<"
        depth -= ch == ">"
        commas += (ch == "," and depth == 0)
    if not (uty.endswith(",()>") or ("ControlFlow<" in uty and commas == 0)):       # `ControlFlow<B>` is printed without its default `C = ()`
        return
    cb = blocks[C]
    tc = cb["term"]
    if tc["k"] != "SwitchInt" or len(cb["stmts"]) != 1 or cb["stmts"][0]["k"] != "Assign" or cb["stmts"][0]["rv"]["k"] != "Discriminant" \
            or cb["stmts"][0]["rv"]["place"]["local"] != tb["dest"]["local"]:
        return
    edges = {v: bbi for v, bbi in tc["targets"]}
    if 0 not in edges or 1 not in edges:
        return
    for i in range(bo, bo + n_inl):
        p = blocks[i]
        if p["term"]["k"] != "Goto":
            continue
        tgt, hops = p["term"]["target"], 0
        while tgt != landing and hops < 3 and bo <= tgt < bo + n_inl and not blocks[tgt]["stmts"] and blocks[tgt]["term"]["k"] == "Goto":
            tgt = blocks[tgt]["term"]["target"]
            hops += 1
        if tgt != landing:
            continue
        variant = None
        for st in p["stmts"]:
            if st["k"] == "Assign" and st["place"]["local"] == lo and not st["place"]["proj"]:
                rv = st["rv"]
                variant = rv["variant"] if (rv["k"] == "Aggregate" and rv.get("agg") == "Adt" and str(rv.get("adt", "")).endswith("result::Result")) else None
        if variant not in ("Ok", "Err"):
            continue
        n0 = len(blocks)
        l2 = copy.deepcopy(blocks[landing]); b2 = copy.deepcopy(bb); c2 = copy.deepcopy(cb)
        l2["term"] = dict(l2["term"], target=n0 + 1)
        b2["term"] = dict(b2["term"], target=n0 + 2)
        c2["term"] = {"k": "Goto", "target": edges[0] if variant == "Ok" else edges[1], "line": tc.get("line"), "exp": True}
        for x in (l2, b2, c2):
            x["threaded"] = variant
        blocks += [l2, b2, c2]
        p["term"] = dict(p["term"], target=n0)


def apply_mir(facts, inl):
    """splice the bodies of NEW non-public functions into their callers; a new function all of whose calls were spliced is moved from
    facts.mir to facts.mir_inlined (its sites, loops and borders are then examined as part of its callers)"""
    import mir
    newp = {p for p in facts.mir if facts.norm(p) in inl.new and facts.mir[p].get("promoted") is None}
    if not newp:
        return
    pristine = {p: copy.deepcopy(facts.mir[p]) for p in newp}
    remaining = {p: 0 for p in newp}
    for p, b in facts.mir.items():
        if p in newp:
            continue
        depth_of = {}
        n = 0
        changed = True
        while changed and n < 40:
            changed = False
            for bi, bl in enumerate(b["blocks"]):
                t = bl["term"]
                if t["k"] != "Call":
                    continue
                cp = mir.callee_path(t)
                if cp not in newp:
                    continue
                d = depth_of.get(bl.get("inlined"), 0) if bl.get("inlined") else 0
                if d >= MAXD or "Public" in str(pristine[cp].get("vis")):
                    remaining[cp] += 1
                    continue
                if splice(b, bi, pristine[cp]):
                    depth_of[cp] = max(depth_of.get(cp, 0), d + 1)
                    inl.mir_sites.append("%s -> %s" % (p, cp))
                    n += 1
                    changed = True
                    break
                remaining[cp] += 1
    facts.mir_inlined = {}
    for p in newp:
        if remaining[p] == 0 and "Public" not in str(pristine[p].get("vis")) and any(x.endswith("-> " + p) for x in inl.mir_sites):
            facts.mir_inlined[p] = facts.mir.pop(p)


def apply(facts):
    ks = known()
    if ks is None:
        return None
    inl = Inliner(facts, ks)
    for p, it in facts.hir.items():
        if it.get("body") is None or it["defkind"] not in ("Fn", "AssocFn", "Closure"):
            continue
        if facts.norm(p) in inl.new:
            continue
        inl.closures = inl.scan_closures(it["body"])
        if not inl.new and not inl.closures:
            continue
        it["body"] = inl.expand(it["body"], 0, (it["path"],), it["path"])
        # the definitions of the closures that were expanded at their calls carry nothing any more
        for h, (c, let) in inl.closures.items():
            _empty_closure(it["body"], h)
        inl.closures = {}
    return inl


def _empty_closure(body, hid):
    import hir as H
    for n in H.walk(body):
        if n.get("k") == "Let" and n["pat"].get("k") == "Binding" and n["pat"].get("hid") == hid and isinstance(n.get("init"), dict):
            i_ = n["init"]
            while i_.get("k") == "Block" and not i_["stmts"] and i_.get("expr"):
                i_ = i_["expr"]
            if i_.get("k") == "Closure":
                i_["body"] = {"k": "Tup", "elems": [], "line": i_.get("line"), "exp": False}
                i_["expanded_at_calls"] = True


if __name__ == "__main__":
    import sys
    sys.path[:0] = [os.path.dirname(os.path.abspath(__file__))]
    import facts as F
    f = F.load()
    print(json.dumps({"_doc": "Functions that existed when the tables and shape rules were reviewed; a crate function that is not listed is NEW and "
                              "is inlined into its callers in the HIR view (checks/lib/inline.py).  Regenerate with "
                              "`python3 checks/lib/inline.py > checks/tables/known_functions.json` after reviewing the functions that were added.",
                      "functions": fn_paths(f)}, ensure_ascii=False, indent=1))
