"""Pretty printer for MIR JSON (debug aid)."""
import json, sys

def place(p):
    s = "_%d" % p["local"]
    for e in p["proj"]:
        k = e["k"]
        if k == "Deref": s = "(*%s)" % s
        elif k == "Field": s = "%s.%s" % (s, e["name"])
        elif k == "Index": s = "%s[_%d]" % (s, e["local"])
        elif k == "Downcast": s = "(%s as %s)" % (s, e["variant"])
        elif k == "ConstantIndex": s = "%s[%s%d]" % (s, "-" if e["from_end"] else "", e["offset"])
        else: s = "%s.<%s>" % (s, k)
    return s

def op(o):
    k = o["k"]
    if k in ("Copy", "Move"): return ("move " if k == "Move" else "") + place(o["place"])
    if k == "Const":
        if "fn" in o: return "fn:" + (o["fn"].get("resolved") or o["fn"]["def_with_args"])
        if "v" in o: return "const %r" % (o["v"],)
        if "unevaluated" in o: return "const{%s%s}" % (o["unevaluated"], (":p%d" % o["promoted"]) if "promoted" in o else "")
        return "const<%s>" % o["ty"]
    return k

def rv(r):
    k = r["k"]
    if k == "Use": return op(r["op"])
    if k == "Ref": return "&%s%s" % ("mut " if r["mut"] else "", place(r["place"]))
    if k == "BinaryOp": return "%s(%s, %s)" % (r["op"], op(r["l"]), op(r["r"]))
    if k == "UnaryOp": return "%s(%s)" % (r["op"], op(r["e"]))
    if k == "Cast": return "%s as %s [%s]" % (op(r["op"]), r["ty"], r["kind"])
    if k == "Discriminant": return "discr(%s)" % place(r["place"])
    if k == "Aggregate":
        h = r["agg"]
        if h == "Adt": h = "%s::%s" % (r["adt"].rsplit("::",1)[-1], r["variant"])
        if h == "Closure": h = "closure " + r["def"]
        return "%s(%s)" % (h, ", ".join(op(o) for o in r["ops"]))
    if k == "CopyForDeref": return "deref_copy " + place(r["place"])
    if k == "RawPtr": return "&raw " + place(r["place"])
    return k

def body(b):
    out = ["fn %s  // %s:%s  args=%d" % (b["path"], b["span"]["file"], b["span"]["line"], b["arg_count"])]
    for i, l in enumerate(b["locals"]):
        out.append("  let _%d: %s%s" % (i, l["ty"], ("  // " + l["name"]) if l["name"] else ""))
    for i, bl in enumerate(b["blocks"]):
        out.append("  bb%d%s:" % (i, " (cleanup)" if bl["cleanup"] else ""))
        for s in bl["stmts"]:
            if s["k"] == "Assign": out.append("    %s = %s  // L%d" % (place(s["place"]), rv(s["rv"]), s["line"]))
            else: out.append("    %s" % s["k"])
        t = bl["term"]; k = t["k"]
        if k == "Call": out.append("    %s = %s(%s) -> bb%s  // L%d" % (place(t["dest"]), op(t["func"]), ", ".join(op(a) for a in t["args"]), t["target"], t["line"]))
        elif k == "SwitchInt": out.append("    switch %s %s else bb%d" % (op(t["discr"]), t["targets"], t["otherwise"]))
        elif k == "Goto": out.append("    goto bb%d" % t["target"])
        elif k == "Assert": out.append("    assert(%s == %s, %s) -> bb%d  // L%d" % (op(t["cond"]), t["expected"], t["msg"]["k"], t["target"], t["line"]))
        elif k == "Drop": out.append("    drop(%s) -> bb%d" % (place(t["place"]), t["target"]))
        else: out.append("    %s" % k)
    return "\n".join(out)

if __name__ == "__main__":
    d = json.load(open(sys.argv[1]))
    for b in d["mir"]:
        if any(a in b["path"] for a in sys.argv[2:]):
            print(body(b)); print()
