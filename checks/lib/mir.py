"""CFG utilities over the MIR JSON: successors, dominators, loops, def-use
resolution of temporaries to field paths, call sites, call graph."""
from collections import defaultdict


def succs(body, i, unwind=False):
    t = body["blocks"][i]["term"]
    k = t["k"]
    out = []
    if k == "Goto":
        out = [t["target"]]
    elif k == "SwitchInt":
        out = [x[1] for x in t["targets"]] + [t["otherwise"]]
    elif k in ("Call",):
        if t.get("target") is not None:
            out = [t["target"]]
    elif k in ("Drop", "Assert"):
        out = [t["target"]]
    if unwind and t.get("unwind") is not None:
        out.append(t["unwind"])
    return out


class CFG:
    """normal (non-unwind) control flow graph of one body"""

    def __init__(self, body):
        self.body = body
        n = len(body["blocks"])
        self.n = n
        self.succ = [succs(body, i) for i in range(n)]
        self.pred = [[] for _ in range(n)]
        for i, ss in enumerate(self.succ):
            for s in ss:
                self.pred[s].append(i)
        self.reach = self._reach(0)
        self._dom = None
        self._defs = None

    def _reach(self, start, avoid=()):
        seen, st = set(), [start]
        while st:
            x = st.pop()
            if x in seen or x in avoid:
                continue
            seen.add(x)
            st.extend(self.succ[x])
        return seen

    def reachable_from(self, start, avoid=()):
        return self._reach(start, avoid)

    @property
    def dom(self):
        """dom[b] = set of blocks dominating b (incl. b)"""
        if self._dom is None:
            nodes = sorted(self.reach)
            allb = set(nodes)
            dom = {b: set(allb) for b in nodes}
            dom[0] = {0}
            changed = True
            while changed:
                changed = False
                for b in nodes:
                    if b == 0:
                        continue
                    ps = [p for p in self.pred[b] if p in allb]
                    if not ps:
                        continue
                    new = set.intersection(*(dom[p] for p in ps)) | {b}
                    if new != dom[b]:
                        dom[b] = new
                        changed = True
            self._dom = dom
        return self._dom

    def dominates(self, a, b):
        return b in self.dom and a in self.dom[b]

    def back_edges(self):
        out = []
        for b in self.reach:
            for s in self.succ[b]:
                if s in self.dom.get(b, ()):
                    out.append((b, s))
        return out

    def natural_loop(self, tail, head):
        body = {head}
        st = [tail]
        while st:
            x = st.pop()
            if x in body:
                continue
            body.add(x)
            st.extend(p for p in self.pred[x] if p in self.reach)
        return body

    def loops(self):
        """[(head, body set, [tails])] merged per head"""
        per = defaultdict(lambda: (set(), []))
        for t, h in self.back_edges():
            b = self.natural_loop(t, h)
            per[h][0].update(b)
            per[h][1].append(t)
        return [(h, v[0], v[1]) for h, v in sorted(per.items())]

    # ---- definitions ---------------------------------------------------
    @property
    def defs(self):
        """local -> list of (block, stmt index or 'term', rvalue/None) for whole-local assignments"""
        if self._defs is None:
            d = defaultdict(list)
            for bi, bl in enumerate(self.body["blocks"]):
                for si, s in enumerate(bl["stmts"]):
                    if s["k"] == "Assign" and not s["place"]["proj"]:
                        d[s["place"]["local"]].append((bi, si, s["rv"]))
                t = bl["term"]
                if t["k"] == "Call" and not t["dest"]["proj"]:
                    d[t["dest"]["local"]].append((bi, "term", {"k": "CallResult", "term": t}))
            self._defs = d
        return self._defs

    def single_def(self, local):
        ds = self.defs.get(local, [])
        if len(ds) == 1:
            return ds[0]
        return None

    # ---- path resolution -----------------------------------------------
    def resolve_place(self, place, depth=0):
        """follow single-definition temporaries: returns (root, [projection names])
        root is ('arg', i) / ('local', i) / ('const', value) / ('call', term) / ('static', path);
        projection: field names, '*' for deref is dropped, '[i]' kept, 'as V' downcasts kept as '@V'"""
        proj = []
        for e in place["proj"]:
            k = e["k"]
            if k == "Field":
                proj.append(e["name"])
            elif k == "Downcast":
                proj.append("@" + e["variant"])
            elif k == "Index":
                proj.append("[]")
            elif k == "ConstantIndex":
                proj.append("[%d]" % e["offset"])
            elif k == "Deref":
                pass
            else:
                proj.append("<%s>" % k)
        l = place["local"]
        if 1 <= l <= self.body["arg_count"]:
            return ("arg", l), proj
        if depth > 12:
            return ("local", l), proj
        d = self.single_def(l)
        if d is None:
            return ("local", l), proj
        rv = d[2]
        k = rv["k"]
        if k in ("Use", "Cast") and rv["op"]["k"] in ("Copy", "Move"):
            r, p = self.resolve_place(rv["op"]["place"], depth + 1)
            return r, p + proj
        if k in ("Use",) and rv["op"]["k"] == "Const":
            c = rv["op"]
            if "static" in c:
                return ("static", c["static"]), proj
            return ("const", c.get("v"), c), proj
        if k in ("Ref", "CopyForDeref", "RawPtr"):
            r, p = self.resolve_place(rv["place"], depth + 1)
            return r, p + proj
        if k == "CallResult":
            t = rv["term"]
            if callee_name(t) in TRANSPARENT_CALLS and len(t["args"]) == 1 and t["args"][0]["k"] in ("Copy", "Move"):
                r, p = self.resolve_place(t["args"][0]["place"], depth + 1)
                return r, p + proj
            return ("call", rv["term"], d[0]), proj
        return ("local", l), proj

    def resolve_operand(self, op, depth=0):
        if op["k"] in ("Copy", "Move"):
            return self.resolve_place(op["place"], depth)
        if op["k"] == "Const":
            if "fn" in op:
                return ("fn", op["fn"]), []
            if "static" in op:
                return ("static", op["static"]), []
            return ("const", op.get("v"), op), []
        return ("other", op["k"]), []

    def path_s(self, op):
        r, p = self.resolve_operand(op)
        if r[0] == "arg":
            nm = self.body["locals"][r[1]]["name"] or "_%d" % r[1]
            return ".".join([nm] + p)
        if r[0] == "const":
            return "const:%r" % (r[1],)
        if r[0] == "call":
            return ".".join(["call:" + callee_name(r[1])] + p)
        if r[0] == "local":
            nm = self.body["locals"][r[1]]["name"] or "_%d" % r[1]
            return ".".join([nm] + p)
        return ".".join([str(r[1])] + p)

    # ---- calls -----------------------------------------------------------
    def calls(self, name=None):
        """[(block index, terminator)] of Call terminators (reachable blocks only), optionally by callee item name"""
        out = []
        for bi in sorted(self.reach):
            t = self.body["blocks"][bi]["term"]
            if t["k"] == "Call":
                if name is None or callee_name(t) == name:
                    out.append((bi, t))
        return out

    def bool_branch(self, bi):
        """for a block ending in a call returning bool (or any block defining a bool local) find the
        SwitchInt testing that value: returns (true_target, false_target) or None.  Handles `Not`."""
        t = self.body["blocks"][bi]["term"]
        if t["k"] != "Call" or t.get("target") is None:
            return None
        val = t["dest"]["local"]
        neg = False
        cur = t["target"]
        for _ in range(6):
            bl = self.body["blocks"][cur]
            for s in bl["stmts"]:
                if s["k"] == "Assign" and not s["place"]["proj"]:
                    rv = s["rv"]
                    if rv["k"] == "UnaryOp" and rv["op"] == "Not" and rv["e"]["k"] in ("Copy", "Move") and rv["e"]["place"]["local"] == val:
                        val = s["place"]["local"]
                        neg = not neg
                    elif rv["k"] == "Use" and rv["op"]["k"] in ("Copy", "Move") and rv["op"]["place"]["local"] == val and not rv["op"]["place"]["proj"]:
                        val = s["place"]["local"]
            tt = bl["term"]
            if tt["k"] == "SwitchInt" and tt["discr"]["k"] in ("Copy", "Move") and tt["discr"]["place"]["local"] == val:
                f = None
                for v, b in tt["targets"]:
                    if v == 0:
                        f = b
                tr = tt["otherwise"]
                if f is None:
                    return None
                self.last_switch_block = cur
                return (f, tr) if neg else (tr, f)
            if tt["k"] == "Goto":
                cur = tt["target"]
                continue
            return None
        return None


TRANSPARENT_CALLS = {"deref", "deref_mut", "as_str", "as_ref", "as_mut", "borrow", "borrow_mut", "as_slice", "as_mut_slice"}


def callee_name(t):
    f = t["func"]
    if f["k"] == "Const" and "fn" in f:
        return f["fn"]["name"]
    return None


def callee_path(t, resolved=True):
    f = t["func"]
    if f["k"] == "Const" and "fn" in f:
        if resolved and f["fn"].get("resolved"):
            return f["fn"]["resolved"]
        return f["fn"]["def"]
    return None


def callee_fn(t):
    f = t["func"]
    if f["k"] == "Const" and "fn" in f:
        return f["fn"]
    return None


_cfgs = {}


def cfg(body):
    k = id(body)
    if k not in _cfgs:
        _cfgs[k] = CFG(body)
    return _cfgs[k]


# ----------------------------------------------------------------------------
# call graph
class CallGraph:
    """edges between local MIR bodies: resolved calls; class-hierarchy resolution (all local impls of the
    trait method) for trait calls rustc could not resolve in the generic body; closure construction = edge to
    the closure body (it may be invoked by the callee it is handed to)."""

    def __init__(self, facts):
        self.f = facts
        self.edges = {}
        self.ext = {}      # body path -> set of external callee paths (resolved where possible)
        self.cha_used = {}
        impl_methods = {}  # (trait, method name) -> [paths]
        for path, b in facts.mir.items():
            imp = b.get("impl") or {}
            if imp.get("trait") and b["defkind"] == "AssocFn":
                impl_methods.setdefault((imp["trait"], b["name"]), []).append(path)
        for path, b in facts.mir.items():
            out, ext = set(), set()
            for bl in b["blocks"]:
                for s in bl["stmts"]:
                    if s["k"] == "Assign" and s["rv"]["k"] == "Aggregate" and s["rv"].get("agg") == "Closure":
                        out.add(s["rv"]["def"])
                t = bl["term"]
                if t["k"] not in ("Call", "TailCall"):
                    continue
                fn = callee_fn(t)
                if fn is None:
                    continue
                # fn items passed as arguments (function pointers) are potential callees too
                tgt = fn.get("resolved") or None
                if tgt and tgt in facts.mir:
                    out.add(tgt)
                elif tgt:
                    ext.add(tgt)
                    # a generic external callee may call back local trait impls via its arguments; closures handled above
                else:
                    tr = fn.get("trait")
                    if tr and (tr, fn["name"]) in impl_methods:
                        for p in impl_methods[(tr, fn["name"])]:
                            out.add(p)
                        self.cha_used.setdefault(path, set()).add("%s::%s" % (tr, fn["name"]))
                    elif fn["def"] in facts.mir:
                        out.add(fn["def"])
                    else:
                        ext.add(fn["def"])
                for a in t["args"]:
                    if a["k"] == "Const" and "fn" in a:
                        p = a["fn"].get("resolved") or a["fn"]["def"]
                        if p in facts.mir:
                            out.add(p)
                    if a["k"] == "Const" and "closure" in a and a["closure"] in facts.mir:
                        out.add(a["closure"])
            # function items / closures mentioned as plain constants in statements
            for bl in b["blocks"]:
                for s in bl["stmts"]:
                    if s["k"] == "Assign":
                        for o in _operands(s["rv"]):
                            if o["k"] == "Const":
                                if "fn" in o:
                                    p = o["fn"].get("resolved") or o["fn"]["def"]
                                    if p in facts.mir:
                                        out.add(p)
                                if "closure" in o and o["closure"] in facts.mir:
                                    out.add(o["closure"])
            self.edges[path] = out
            self.ext[path] = ext

    def reachable(self, roots):
        seen, st = set(), list(roots)
        while st:
            x = st.pop()
            if x in seen:
                continue
            seen.add(x)
            st.extend(self.edges.get(x, ()))
        return seen

    def sccs(self, nodes):
        """Tarjan over the sub-graph induced by nodes; returns list of SCCs (lists) with size>1 or self loop"""
        index, low, stack, on, out = {}, {}, [], set(), []
        counter = [0]
        import sys
        sys.setrecursionlimit(10000)

        def strong(v):
            index[v] = low[v] = counter[0]
            counter[0] += 1
            stack.append(v)
            on.add(v)
            for w in self.edges.get(v, ()):
                if w not in nodes:
                    continue
                if w not in index:
                    strong(w)
                    low[v] = min(low[v], low[w])
                elif w in on:
                    low[v] = min(low[v], index[w])
            if low[v] == index[v]:
                comp = []
                while True:
                    w = stack.pop()
                    on.discard(w)
                    comp.append(w)
                    if w == v:
                        break
                if len(comp) > 1 or v in self.edges.get(v, ()):
                    out.append(comp)
        for v in sorted(nodes):
            if v not in index:
                strong(v)
        return out


def _operands(rv):
    k = rv["k"]
    if k in ("Use", "Cast", "Repeat", "WrapUnsafeBinder"):
        return [rv["op"]]
    if k == "BinaryOp":
        return [rv["l"], rv["r"]]
    if k == "UnaryOp":
        return [rv["e"]]
    if k == "Aggregate":
        return rv["ops"]
    return []


_cg = {}


def callgraph(facts):
    k = id(facts)
    if k not in _cg:
        _cg[k] = CallGraph(facts)
    return _cg[k]
