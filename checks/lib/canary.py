"""Canaries: the fact engine and the rule primitives must flag a tiny crate of deliberately violating constructs on every run
(otherwise CANARY-SILENT: a rule that can no longer see its target would pass vacuously forever)."""
import hashlib, os, shutil, subprocess
import facts, mir
from facts import VERIF, EXTRACT, DRIVER, Infra
from facts import MAIN_CACHE as CACHE     # the canary crate does not depend on the analysed tree: always the main cache

CANARY = os.path.join(VERIF, "canary")


class CanarySilent(Exception):
    pass


def _hash():
    h = hashlib.sha256()
    for rel in ("Cargo.toml", "src/lib.rs"):
        h.update(open(os.path.join(CANARY, rel), "rb").read())
    st = os.stat(DRIVER)
    h.update(("%d:%d" % (st.st_size, int(st.st_mtime))).encode())
    return h.hexdigest()[:20]


def load():
    out = os.path.join(CACHE, "canary-" + _hash())
    fact = os.path.join(out, "narsese.json")
    if not os.path.exists(fact):
        tmp = out + ".tmp%d" % os.getpid()
        shutil.rmtree(tmp, ignore_errors=True)
        r = subprocess.run([EXTRACT, CANARY, tmp], capture_output=True, text=True)
        if r.returncode != 0:
            shutil.rmtree(tmp, ignore_errors=True)
            raise Infra("canary extraction failed: %s" % r.stderr[-800:])
        os.makedirs(CACHE, exist_ok=True)
        try:
            os.rename(tmp, out)
        except OSError:
            # another process finished the same extraction first: use its result
            shutil.rmtree(tmp, ignore_errors=True)
            if not os.path.exists(fact):
                raise
    return facts.Facts(fact, "canary")


def run(ctx):
    """assert that each primitive fires on the canary crate; records the result in the evidence"""
    import panics, eqhash, guards, progress, report
    cf = load()
    res = {}
    b = cf.mir1("canary_panics")
    kinds = sorted({"%s %s" % (k, d.split("(")[0].rsplit("::", 1)[-1]) for k, d, bi, t in panics.panic_sites(b)})
    res["P-INV kinds on canary_panics"] = kinds
    need = ["assert BoundsCheck", "assert Overflow", "may-panic unwrap", "may-panic index", "panic"]
    for n in need:
        if not any(n.split()[-1].lower() in k.lower() and k.startswith(n.split()[0]) for k in kinds):
            raise CanarySilent("P-INV does not see `%s` in the canary (found %s)" % (n, kinds))
    b = cf.mir1("canary_hash_in_set_order")
    if not eqhash.unordered_loops(b):
        raise CanarySilent("H-ORDER does not see the hash-set loop in the canary")
    b2 = cf.mir1("canary_for_each_in_set_order")
    if not eqhash.internal_iteration_sites(b2, mir.cfg(b2), eqhash.sink_params(b2)):
        raise CanarySilent("H-ORDER does not see the internal iteration (for_each with a captured sink) in the canary")
    import maps
    os_ = {(fn, nm) for fn, p_, nm, line, ty, hard in maps.order_sites(cf, modules=("canary_reorder",))}
    res["O-ORDER on canary_reorder"] = sorted(nm for fn, nm in os_)
    if not {("canary_reorder", "swap_remove"), ("canary_reorder", "insert"), ("canary_reorder", "rev")} <= os_:
        raise CanarySilent("O-ORDER does not see the reordering calls in the canary (found %s)" % sorted(os_))
    fake = report.Ctx("canary", "quick", "other", cf)
    ok1, why1 = eqhash.combiner_check(fake, "canary_commutative")
    ok2, why2 = eqhash.combiner_check(fake, "canary_non_commutative")
    ok3, why3 = eqhash.combiner_check(fake, "canary_hash_in_set_order")
    res["H-COMB"] = {"commutative": ok1, "non_commutative": why2, "set_order": why3}
    if not ok1 or ok2 or ok3:
        raise CanarySilent("H-COMB misjudges the canary combiners: %s" % res["H-COMB"])
    g = [x for x in cf.globals.values() if x["kind"] == "static" and x["mutable"]]
    cells = [fd for a in cf.adts.values() for v in a["variants"] for fd in v["fields"] if "Cell<" in fd["ty"]]
    res["S-FREEZE"] = {"static_mut": len(g), "cell_fields": len(cells)}
    if not g or not cells:
        raise CanarySilent("S-FREEZE scan does not see static mut / Cell in the canary")
    b = cf.mir1("canary_guarded")
    sym = guards.Sym(b)
    gs = []
    for k, d, bi, t in panics.panic_sites(b):
        gs += ["%s = %s" % (e, v) for e, v in sym.live_guards(bi)]
    res["P-GUARD signature of canary_guarded"] = gs
    if "Lt(a2,len(a1)) = true" not in gs:
        raise CanarySilent("P-GUARD does not extract the guard of the canary index (%s)" % gs)
    b = cf.mir1("canary_spin")
    gcf = mir.cfg(b)
    spins = 0
    for h, blocks, tails in gcf.loops():
        prog = progress.loop_progress_blocks(fake, b["path"], b, gcf, blocks)
        rest = set(blocks) - set(prog)
        if progress.has_cycle(rest, {u: [v for v in gcf.succ[u] if v in rest] for u in rest}):
            spins += 1
    res["L-PROGRESS loops without witness in canary_spin"] = spins
    if spins != 1:
        raise CanarySilent("L-PROGRESS does not flag the canary spin loop")
    ctx.extra["canaries"] = res
    return res
