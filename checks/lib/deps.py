"""Hand-written summaries of dependency helpers that sit on analysed paths.  Each summary cites the pinned source it
was read from; the version in Cargo.lock and the sha256 of the files read are asserted, so a silent dependency
change fails closed (exit 2) instead of being trusted."""
import glob, hashlib, os, re
from facts import AnchorMissing, REPO

NAR_DEV_UTILS = {
    "version": "0.42.3",
    "files": {
        "src/floats.rs": "3d28e7ddb38531d508fdca88f9c846366891352712057674eb40264d5c24abfa",
        "src/opt_res_boost/result.rs": "0705db8d901b3a2b67947a1fcb01580509c61367fde9fe5680d54047792b5482",
        "src/str_processing/x_fix_match/x_fix_dict.rs": "1843286660612f29230147a49266729b34149bb6c2c1952be2be98b72ff41521",
        "src/str_processing/x_fix_match/suffix_match.rs": "ecfeaff6b68c9ca8f8818efab933b7fe265578d02a6615b2c434f33696d24937",
        "src/str_processing/x_fix_match/bi_fix_dict.rs": "53e63db2a7fb8a7f712bf1e6b7d4171c05a29431547107d867834f956db502d3",
        "src/str_processing/x_fix_match/traits.rs": "7e708da8a981aae915677ac92303d80e4e787c51940841914a31ae460bbbfdf5",
        "src/str_processing/x_fix_match/std_boost.rs": "fa6176380bc8de60ce6a48c500e2c0309c7e4cbfa7143d2c51a3823fa9d80e0d",
        "src/str_processing/char_slices.rs": "bfc6655a4d05cfefbdaeb95c8f1a66bd9657f6b3b7fa8f91d3069b99ded11d1f",
        "src/str_processing/join.rs": "274fa3ab05b09be5d3990b88b96d68abe1c573be8e3230fd71e16a01422478a5",
    },
    "summaries": {
        "ZeroOneFloat::is_in_01 (f32,f64)": "(0.0..=1.0).contains(self)  -- floats.rs impl_zero_one_float; NaN and ±inf rejected, -0.0 accepted",
        "ZeroOneFloat::try_validate_01": "match self.is_in_01() { true => Ok(self), false => Err(..) }  -- floats.rs",
        "ZeroOneFloat::validate_01": "self.try_validate_01().unwrap()  -- floats.rs (panics iff try_validate_01 is Err)",
        "ResultBoost::transform": "match self { Ok(ok) => Ok(f_ok(ok)), Err(e) => Err(f_err(e)) }  -- opt_res_boost/result.rs",
        "XFixMatchDict iteration": "sorted ascending on insert (dedup), iter_x_fixes() = reversed => descending lexicographic; prefix/suffix match = first hit  -- x_fix_dict.rs, traits.rs",
        "StartsWithStr::starts_with_str ([char])": "needle empty => true; slice empty => false; else walks the SLICE and compares with needle chars, returning true when "
                                                   "either runs out: true for `needle is a prefix of slice` AND for `slice is a proper prefix of needle`  -- std_boost.rs",
        "char_slice_has_prefix / _suffix": "String::from_iter(slice).starts_with(prefix) / ends_with(suffix): full matches  -- char_slices.rs (used by match_prefix_char_slice / match_suffix_char_slice, traits.rs)",
        "SuffixMatchDictPair": "kept sorted descending by suffix, insert drops an entry whose suffix already exists  -- suffix_match.rs",
    },
}


def lock_version(name, repo=None):
    try:
        s = open(os.path.join(repo or os.environ.get("VERIF_REPO", REPO), "Cargo.lock"), encoding="utf-8").read()
    except OSError:
        return None
    m = re.search(r'name = "%s"\nversion = "([^"]+)"' % re.escape(name), s)
    return m.group(1) if m else None


def source_dir(name, version):
    home = os.environ.get("CARGO_HOME") or os.path.expanduser("~/.cargo")
    c = sorted(glob.glob(os.path.join(home, "registry/src/*/%s-%s" % (name, version))))
    return c[0] if c else None


def require_nar_dev_utils(ctx, files=None):
    v = lock_version("nar_dev_utils")
    want = NAR_DEV_UTILS["version"]
    if v != want:
        raise AnchorMissing("dependency summaries were read from nar_dev_utils %s but Cargo.lock pins %s: re-read the summaries" % (want, v))
    d = source_dir("nar_dev_utils", want)
    if d is None:
        raise AnchorMissing("pinned source of nar_dev_utils %s not found in the cargo registry" % want)
    for rel, sha in NAR_DEV_UTILS["files"].items():
        if files and rel not in files:
            continue
        try:
            h = hashlib.sha256(open(os.path.join(d, rel), "rb").read()).hexdigest()
        except OSError:
            raise AnchorMissing("dependency file %s missing" % rel)
        if h != sha:
            raise AnchorMissing("dependency file %s changed (sha256 %s), summaries are stale" % (rel, h))
    ctx.extra["dependency_summaries"] = {"nar_dev_utils": want, "files_verified": sorted(files or NAR_DEV_UTILS["files"]),
                                         "summaries": NAR_DEV_UTILS["summaries"]}
    return d
