"""T-* rules: extraction of the six keyword tables from HIR and table-level laws."""
import os
import hir
from hir import Unrecognised
from facts import AnchorMissing

ENUM_FMT_MOD = "impl_enum::format_instances"
LEX_FMT_MOD = "impl_lexical::format_instances"


# ----------------------------------------------------------------------------
# character predicates
def char_pred(facts, fn_path):
    """normalise `fn(char)->bool` to a frozenset of atoms:
       ('lit',c) ('range',lo,hi) ('cmp',op,c) ('call',def path)"""
    it = facts.hir.get(fn_path)
    if it is None:
        raise AnchorMissing("char predicate %s" % fn_path)
    if len(it["params"]) != 1 or it["params"][0]["k"] != "Binding":
        raise Unrecognised("predicate %s: parameter shape" % fn_path)
    var = it["params"][0]["name"]
    body = hir.last_expr(it["body"])
    atoms = set()

    def pat_atoms(p):
        k = p["k"]
        if k == "Or":
            for x in p["pats"]:
                pat_atoms(x)
        elif k == "Expr" and p["expr"]["k"] == "Lit" and p["expr"]["lit"]["lit"] == "char":
            atoms.add(("lit", p["expr"]["lit"]["v"]))
        elif k == "Range" and p["inclusive"] and p["lo"] and p["hi"] and p["lo"]["k"] == "Lit" and p["hi"]["k"] == "Lit":
            atoms.add(("range", p["lo"]["lit"]["v"], p["hi"]["lit"]["v"]))
        else:
            raise Unrecognised("predicate %s: pattern %s" % (fn_path, k), p)

    def expr_atoms(e):
        e = hir.strip(e)
        for d in hir.disjuncts(e):
            d = hir.strip(d)
            if d["k"] == "MethodCall" and hir.field_path(d["recv"]) == (var,) and not d["args"]:
                atoms.add(("call", d.get("def")))
            elif d["k"] == "Binary" and d["op"] in ("==", ">", "<", ">=", "<="):
                l, r = hir.strip(d["l"]), hir.strip(d["r"])
                op = d["op"]
                if hir.field_path(r) == (var,) and l["k"] == "Lit":
                    l, r = r, l
                    op = {"==": "==", ">": "<", "<": ">", ">=": "<=", "<=": ">="}[op]
                if hir.field_path(l) == (var,) and r["k"] == "Lit" and r["lit"]["lit"] == "char":
                    if op == "==":
                        atoms.add(("lit", r["lit"]["v"]))
                    else:
                        atoms.add(("cmp", op, r["lit"]["v"]))
                else:
                    raise Unrecognised("predicate %s: comparison" % fn_path, d)
            elif d["k"] == "Match" and hir.field_path(d["scrut"]) == (var,):
                # matches!(c, pats)
                for a in d["arms"]:
                    b = hir.strip(a["body"])
                    if a.get("guard"):
                        raise Unrecognised("predicate %s: guarded arm" % fn_path, d)
                    if b["k"] == "Lit" and b["lit"]["v"] is True:
                        pat_atoms(a["pat"])
                    elif b["k"] == "Lit" and b["lit"]["v"] is False and a["pat"]["k"] == "Wild":
                        pass
                    else:
                        raise Unrecognised("predicate %s: match arm" % fn_path, d)
            else:
                raise Unrecognised("predicate %s: disjunct %s" % (fn_path, d["k"]), d)

    expr_atoms(body)
    return frozenset(atoms)


CALL_SEM = {
    "std::char::methods::<impl char>::is_alphanumeric": lambda c: c.isalnum(),
    "std::char::methods::<impl char>::is_whitespace": lambda c: c.isspace(),
    "std::char::methods::<impl char>::is_alphabetic": lambda c: c.isalpha(),
    "std::char::methods::<impl char>::is_numeric": lambda c: c.isnumeric(),
    "std::char::methods::<impl char>::is_ascii_digit": lambda c: c in "0123456789",
}


def pred_accepts(atoms, c):
    """does the predicate accept char c? (None if undecidable)"""
    unknown = False
    for a in atoms:
        if a[0] == "lit" and a[1] == c:
            return True
        if a[0] == "range" and a[1] <= c <= a[2]:
            return True
        if a[0] == "cmp":
            op, x = a[1], a[2]
            if {">": c > x, "<": c < x, ">=": c >= x, "<=": c <= x}[op]:
                return True
        if a[0] == "call":
            f = CALL_SEM.get(a[1])
            if f is None:
                unknown = True
            elif f(c):
                return True
    return None if unknown else False


# ----------------------------------------------------------------------------
class Tables:
    """enum[name], lex[name] evaluated struct literals + role views"""

    def __init__(self, ctx):
        f = ctx.facts
        self.ctx = ctx
        self.enum, self.lex = {}, {}
        self.enum_item, self.lex_item = {}, {}
        # enum tables: consts of the enum NarseseFormat type
        for path, it in f.hir.items():
            if not it["defkind"].startswith("Const"):
                continue
            g = f.globals.get(path)
            if not g or "impl_enum::format::NarseseFormat<" not in g["ty"]:
                continue
            try:
                self.enum[it["name"]] = hir.eval_table(it["body"])
            except Unrecognised as u:
                ctx.unrecognised("T-EXTRACT", "enum table %s" % it["name"], u.what, "%s:%s" % (it["span"]["file"], u.line))
                continue
            self.enum_item[it["name"]] = it
            ctx.analysed["tables"].add(path)
        # lexical tables: statics whose lazy initializer calls a fn returning the struct literal
        for path, it in f.hir.items():
            if it["name"] != "__static_ref_initialize":
                continue
            owner = path.split(" as ")[0].lstrip("<")
            name = owner.rsplit("::", 1)[-1]
            tail = hir.last_expr(it["body"])
            if tail["k"] != "Call" or not hir.callee(tail):
                ctx.unrecognised("T-EXTRACT", "lexical table %s" % name, "lazy initializer is not a call", None)
                continue
            maker = f.hir.get(hir.callee(tail))
            if maker is None:
                raise AnchorMissing("lexical table maker %s" % hir.callee(tail))
            g = f.globals.get(path.rsplit("::", 1)[0] + "::__stability::LAZY")
            if g is None or "impl_lexical::format::NarseseFormat" not in g["ty"]:
                continue
            try:
                self.lex[name] = hir.eval_table(hir.last_expr(maker["body"]))
            except Unrecognised as u:
                ctx.unrecognised("T-EXTRACT", "lexical table %s" % name, u.what, "%s:%s" % (maker["span"]["file"], u.line))
                continue
            self.lex_item[name] = maker
            ctx.analysed["tables"].add(maker["path"])
        ctx.floor("enum tables", len(self.enum), 3)
        ctx.floor("lexical tables", len(self.lex), 3)
        self.names = sorted(set(self.enum) & set(self.lex))
        ctx.floor("same-named table pairs", len(self.names), 3)
        # cell count
        self.cells = sum(count_cells(t) for t in self.enum.values()) + sum(count_cells(t) for t in self.lex.values())
        ctx.extra["table_cells_extracted"] = self.cells

    # role views ---------------------------------------------------------
    def e_roles(self, name):
        """enum table flattened: role family -> {field: keyword}; field set read from the ADT definitions"""
        t = self.enum[name]
        r = {"prefix": {}, "connecter": {}, "copula": {}, "set_brackets": {}, "punctuation": {}, "stamp_kind": {},
             "single": {}, "space": {}, "fn": {}}
        for sect, val in t.items():
            if sect == "__struct__":
                continue
            if isinstance(val, dict) and "fn" in val:
                r["fn"][sect] = val["fn"]
                continue
            if not isinstance(val, dict):
                raise Unrecognised("enum table %s.%s is not a sub-struct" % (name, sect))
            for fld, kw in val.items():
                if fld == "__struct__":
                    continue
                key = "%s.%s" % (sect, fld)
                if fld.startswith("prefix_"):
                    r["prefix"][fld] = kw
                elif fld.startswith("connecter_"):
                    r["connecter"][fld] = kw
                elif fld.startswith("copula_"):
                    r["copula"][fld] = kw
                elif fld.startswith("brackets_set_"):
                    r["set_brackets"][fld] = kw
                elif fld.startswith("punctuation_"):
                    r["punctuation"][fld] = kw
                elif fld in ("stamp_past", "stamp_present", "stamp_future", "stamp_fixed"):
                    r["stamp_kind"][fld] = kw
                elif sect == "space":
                    r["space"][fld] = kw
                elif fld in ("brackets", "separator", "stamp_brackets", "truth_brackets", "truth_separator",
                             "budget_brackets", "budget_separator"):
                    r["single"][key] = kw
                else:
                    raise Unrecognised("enum table field %s has no known role (new field: review needed)" % key)
        return r

    def l_roles(self, name):
        t = self.lex[name]

        def d(x):
            if not (isinstance(x, dict) and "dict" in x):
                raise Unrecognised("lexical table %s: expected a dictionary" % name)
            return x["dict"]
        return {
            "prefix": d(t["atom"]["prefixes"]),
            "connecter": d(t["compound"]["connecters"]),
            "copula": d(t["statement"]["copulas"]),
            "set_brackets": d(t["compound"]["set_brackets"]),
            "punctuation": d(t["sentence"]["punctuations"]),
            "stamp_pairs": d(t["sentence"]["stamp_brackets"]),
            "single": {
                "compound.brackets": t["compound"]["brackets"],
                "compound.separator": t["compound"]["separator"],
                "statement.brackets": t["statement"]["brackets"],
                "sentence.truth_brackets": t["sentence"]["truth_brackets"],
                "sentence.truth_separator": t["sentence"]["truth_separator"],
                "task.budget_brackets": t["task"]["budget_brackets"],
                "task.budget_separator": t["task"]["budget_separator"],
            },
            "space": t["space"],
            "fn": {
                "is_identifier": t["atom"]["is_identifier"]["fn"],
                "is_stamp_content": t["sentence"]["is_stamp_content"]["fn"],
                "is_truth_content": t["sentence"]["is_truth_content"]["fn"],
                "is_budget_content": t["task"]["is_budget_content"]["fn"],
            },
        }


def count_cells(t):
    if isinstance(t, dict):
        if "dict" in t:
            return sum(count_cells(x) for x in t["dict"])
        return sum(count_cells(v) for k, v in t.items() if k != "__struct__")
    if isinstance(t, tuple):
        return sum(count_cells(x) for x in t)
    return 1


# ----------------------------------------------------------------------------
def rule_T_AGREE(ctx, T):
    ctx.rule("T-AGREE", "enum table == lexical table of the same name, role by role: prefixes, connecters, copulas, "
             "set brackets, brackets, separators, punctuations (as sets), stamp forms (lexical pair set == {('',b0+k+b1)} ∪ {(b0+fixed,b1)}), "
             "identifier predicates (as sets of disjuncts)")
    for name in T.names:
        try:
            e, l = T.e_roles(name), T.l_roles(name)
        except Unrecognised as u:
            ctx.unrecognised("T-AGREE", name, u.what)
            continue
        for fam in ("prefix", "connecter", "copula", "punctuation"):
            es, ls = set(e[fam].values()), set(l[fam])
            for fld, kw in sorted(e[fam].items()):
                ctx.ob("T-AGREE", "%s %s %s" % (name, fam, fld), kw in ls,
                       "enum keyword %r not in lexical %s dictionary %s" % (kw, fam, sorted(ls)))
            extra = ls - es
            ctx.ob("T-AGREE", "%s %s lexical-only" % (name, fam), not extra,
                   "lexical %s keywords without enum counterpart: %s" % (fam, sorted(extra)))
        es = set(e["set_brackets"].values())
        ls = set(tuple(x) for x in l["set_brackets"])
        for fld, kw in sorted(e["set_brackets"].items()):
            ctx.ob("T-AGREE", "%s set_brackets %s" % (name, fld), tuple(kw) in ls, "%r not in %s" % (kw, sorted(ls)))
        ctx.ob("T-AGREE", "%s set_brackets lexical-only" % name, not (ls - es), "%s" % sorted(ls - es))
        for key, kw in sorted(e["single"].items()):
            if key == "sentence.stamp_brackets":
                continue
            ctx.ob("T-AGREE", "%s %s" % (name, key), key in l["single"] and l["single"][key] == kw,
                   "enum %r vs lexical %r" % (kw, l["single"].get(key)))
        # stamps
        b0, b1 = e["single"]["sentence.stamp_brackets"]
        want = set()
        for k in ("stamp_past", "stamp_present", "stamp_future"):
            want.add(("", b0 + e["stamp_kind"][k] + b1))
        want.add((b0 + e["stamp_kind"]["stamp_fixed"], b1))
        got = set(tuple(x) for x in l["stamp_pairs"])
        for w in sorted(want):
            ctx.ob("T-AGREE", "%s stamp form %r" % (name, w), w in got, "not in lexical stamp pairs %s" % sorted(got))
        ctx.ob("T-AGREE", "%s stamp lexical-only" % name, not (got - want), "%s" % sorted(got - want))
        # identifier predicates
        try:
            pe = char_pred(ctx.facts, e["fn"]["is_valid_atom_name"])
            pl = char_pred(ctx.facts, l["fn"]["is_identifier"])
            ctx.ob("T-AGREE", "%s identifier predicate" % name, pe == pl,
                   "enum %s vs lexical %s" % (sorted(pe), sorted(pl)))
        except (Unrecognised, KeyError) as u:
            ctx.unrecognised("T-AGREE", "%s identifier predicate" % name, str(u))


def rule_T_DISTINCT(ctx, T, which=("enum", "lex")):
    ctx.rule("T-DISTINCT", "keywords of one role are pairwise distinct within a table (else two constructors are indistinguishable)")
    for name in T.names:
        if "enum" in which:
            e = T.e_roles(name)
            for fam in ("prefix", "connecter", "copula", "punctuation", "set_brackets"):
                seen = {}
                for fld, kw in sorted(e[fam].items()):
                    k = kw if fam != "set_brackets" else kw[0]
                    ctx.ob("T-DISTINCT", "enum %s %s %s" % (name, fam, fld), k not in seen,
                           "keyword %r also used by %s" % (k, seen.get(k)))
                    seen.setdefault(k, fld)
            # stamp kinds (with brackets they form the stamp token)
            seen = {}
            for fld, kw in sorted(e["stamp_kind"].items()):
                ctx.ob("T-DISTINCT", "enum %s stamp %s" % (name, fld), kw not in seen, "keyword %r also used by %s" % (kw, seen.get(kw)))
                seen.setdefault(kw, fld)
        if "lex" in which:
            l = T.l_roles(name)
            for fam in ("prefix", "connecter", "copula", "punctuation"):
                items = l[fam]
                ctx.ob("T-DISTINCT", "lexical %s %s" % (name, fam), len(items) == len(set(items)),
                       "duplicate keyword in %s (the dictionary silently drops it)" % sorted(items))
            sb = [x[0] for x in l["set_brackets"]]
            ctx.ob("T-DISTINCT", "lexical %s set_brackets" % name, len(sb) == len(set(sb)), "%s" % sb)
            sp = [x[1] for x in l["stamp_pairs"]]
            ctx.ob("T-DISTINCT", "lexical %s stamp suffixes" % name, len(sp) == len(set(sp)),
                   "duplicate stamp suffix %s (SuffixMatchDictPair::insert drops the later entry)" % sp)


def shadow_violations(order):
    """order: list of (label, keyword) in test order.  Returns [(earlier,later)] where the earlier keyword is a
    proper prefix of (or equal to) a later one, so the later can never match."""
    bad = []
    for i, (li, ki) in enumerate(order):
        for lj, kj in order[i + 1:]:
            if kj.startswith(ki) and (ki != kj or True):
                if ki == kj:
                    continue  # T-DISTINCT's business
                bad.append(((li, ki), (lj, kj)))
    return bad


def rule_T_SHADOW_lex(ctx, T):
    ctx.rule("T-SHADOW", "first-match order: a keyword that extends another (as prefix for prefix-matched, as suffix for "
             "suffix-matched dictionaries) is tested before it; lexical dictionaries iterate in descending lexicographic order "
             "(nar_dev_utils 0.42.3 XFixMatchDict::iter_x_fixes = sorted ascending, reversed; SuffixMatchDictPair sorted descending by suffix)")
    for name in T.names:
        l = T.l_roles(name)
        for fam in ("prefix", "connecter", "copula"):
            order = sorted(set(l[fam]), key=lambda s: s.encode("utf-8"), reverse=True)
            bad = shadow_violations([(k, k) for k in order])
            ctx.ob("T-SHADOW", "lexical %s %s prefix-order" % (name, fam), not bad, "shadowed: %s" % bad)
        # suffix matched: punctuations (XFixMatchDict as suffix dict), stamp pairs
        for fam, items in (("punctuation", l["punctuation"]), ("stamp", [x[1] for x in l["stamp_pairs"]])):
            order = sorted(set(items), key=lambda s: s.encode("utf-8"), reverse=True)
            bad = []
            for i, ki in enumerate(order):
                for kj in order[i + 1:]:
                    if kj.endswith(ki) and ki != kj:
                        bad.append((ki, kj))
            ctx.ob("T-SHADOW", "lexical %s %s suffix-order" % (name, fam), not bad,
                   "suffix %s tested before a longer suffix that ends with it" % bad)


def rule_T_NONEMPTY(ctx, T):
    ctx.rule("T-NONEMPTY", "every keyword whose consumption is a parser progress step is non-empty (space, brackets except the "
             "stamp brackets, separators, connecters, copulas, punctuations, stamp kinds, non-word prefixes)")
    for name in T.names:
        e = T.e_roles(name)
        for fam in ("connecter", "copula", "punctuation", "stamp_kind"):
            for fld, kw in sorted(e[fam].items()):
                ctx.ob("T-NONEMPTY", "enum %s %s" % (name, fld), len(kw) > 0, "empty keyword")
        for fld, kw in sorted(e["prefix"].items()):
            if fld == "prefix_word":
                continue
            ctx.ob("T-NONEMPTY", "enum %s %s" % (name, fld), len(kw) > 0, "empty prefix")
        for fld, kw in sorted(e["set_brackets"].items()):
            ctx.ob("T-NONEMPTY", "enum %s %s" % (name, fld), len(kw[0]) > 0 and len(kw[1]) > 0, "empty bracket")
        for key, kw in sorted(e["single"].items()):
            if key == "sentence.stamp_brackets":
                continue
            parts = kw if isinstance(kw, tuple) else (kw,)
            ctx.ob("T-NONEMPTY", "enum %s %s" % (name, key), all(len(p) > 0 for p in parts), "empty keyword")
        ctx.ob("T-NONEMPTY", "enum %s space.parse" % name, len(e["space"]["parse"]) > 0, "empty space keyword")


def rule_T_PRED(ctx, T):
    ctx.rule("T-PRED", "per lexical table: is_truth_content ⊇ {0-9,'.'} ∪ chars(truth_separator); same for budget; "
             "is_stamp_content ⊇ {0-9,+,-}; none accepts a char of the corresponding brackets")
    for name in T.names:
        l = T.l_roles(name)
        s = l["single"]
        for what, fn, sep, br in (
            ("truth", l["fn"]["is_truth_content"], s["sentence.truth_separator"], s["sentence.truth_brackets"]),
            ("budget", l["fn"]["is_budget_content"], s["task.budget_separator"], s["task.budget_brackets"]),
        ):
            try:
                p = char_pred(ctx.facts, fn)
            except Unrecognised as u:
                ctx.unrecognised("T-PRED", "%s %s" % (name, what), u.what)
                continue
            for c in "0123456789." + sep:
                ctx.ob("T-PRED", "%s is_%s_content accepts %r" % (name, what, c), pred_accepts(p, c) is True, "content char rejected")
            for c in sorted(set(br[0] + br[1])):
                ctx.ob("T-PRED", "%s is_%s_content rejects bracket char %r" % (name, what, c), pred_accepts(p, c) is False,
                       "bracket char accepted as content")
        try:
            p = char_pred(ctx.facts, l["fn"]["is_stamp_content"])
            for c in "0123456789+-":
                ctx.ob("T-PRED", "%s is_stamp_content accepts %r" % (name, c), pred_accepts(p, c) is True, "content char rejected")
        except Unrecognised as u:
            ctx.unrecognised("T-PRED", "%s stamp" % name, u.what)


def rule_T_DISJOINT(ctx, T):
    ctx.rule("T-DISJOINT", "per lexical table: the last char of the budget closing bracket is in none of {truth brackets, truth "
             "content, stamp bracket strings, stamp content, punctuations}: prefix (budget) and suffix (truth/stamp/punctuation) "
             "regions cannot overlap, which keeps env[begin_index..right_border] in parse_items well-ordered")
    for name in T.names:
        l = T.l_roles(name)
        s = l["single"]
        bclose = s["task.budget_brackets"][1]
        if not bclose:
            ctx.ob("T-DISJOINT", "%s budget closing bracket" % name, False, "empty")
            continue
        c = bclose[-1]
        tb = s["sentence.truth_brackets"]
        ctx.ob("T-DISJOINT", "%s budget-close %r vs truth brackets" % (name, c), c not in tb[0] + tb[1], "char shared")
        ctx.ob("T-DISJOINT", "%s budget-close %r vs punctuations" % (name, c), all(c not in p for p in l["punctuation"]), "char shared")
        ctx.ob("T-DISJOINT", "%s budget-close %r vs stamp strings" % (name, c),
               all(c not in a + b for a, b in l["stamp_pairs"]), "char shared")
        try:
            pt = char_pred(ctx.facts, l["fn"]["is_truth_content"])
            ps = char_pred(ctx.facts, l["fn"]["is_stamp_content"])
            ctx.ob("T-DISJOINT", "%s budget-close %r vs truth content" % (name, c), pred_accepts(pt, c) is False, "accepted as truth content")
            ctx.ob("T-DISJOINT", "%s budget-close %r vs stamp content" % (name, c), pred_accepts(ps, c) is False, "accepted as stamp content")
        except Unrecognised as u:
            ctx.unrecognised("T-DISJOINT", name, u.what)


def rule_T_IDENT(ctx, T):
    """the identifier predicate cannot swallow the delimiter that follows an atom"""
    ctx.rule("T-IDENT", "per enum table: is_valid_atom_name rejects the space and the first char of every keyword that may directly follow an "
             "atom name without belonging to the copula look-ahead: compound separator, closing brackets of compounds, statements and sets, "
             "punctuations")
    for name in T.names:
        e = T.e_roles(name)
        try:
            p = char_pred(ctx.facts, e["fn"]["is_valid_atom_name"])
        except Unrecognised as u:
            ctx.unrecognised("T-IDENT", name, u.what)
            continue
        follow = {"space.parse": e["space"]["parse"], "compound.separator": e["single"]["compound.separator"],
                  "compound.brackets.1": e["single"]["compound.brackets"][1], "statement.brackets.1": e["single"]["statement.brackets"][1]}
        for fld, kw in e["set_brackets"].items():
            follow[fld + ".1"] = kw[1]
        for fld, kw in e["punctuation"].items():
            follow[fld] = kw
        for fld, kw in sorted(follow.items()):
            ctx.ob("T-IDENT", "%s %s %r" % (name, fld, kw[:1]), len(kw) > 0 and pred_accepts(p, kw[0]) is False,
                   "the identifier predicate accepts %r, so an atom name would run into the following %s" % (kw[:1], fld))


# ----------------------------------------------------------------------------
# unique tokenisation where a name touches a keyword
def _ident_fn(ctx, fn_path):
    p = char_pred(ctx.facts, fn_path)

    def ident(s):
        for c in s:
            r = pred_accepts(p, c)
            if r is None:
                raise Unrecognised("identifier predicate undecidable on %r" % c)
            if not r:
                return False
        return True
    return ident


def emitted_copula_fields(ctx):
    """copula fields the enum formatter can write (the derived copulas are parse-only sugar)"""
    out = set()
    for path, it in ctx.facts.hir.items():
        if "impl_enum::formatter" not in path or it.get("body") is None:
            continue
        for n in hir.walk(it["body"]):
            if n.get("k") == "Field":
                fp = hir.field_path(n)
                if fp and len(fp) >= 2 and fp[-2] == "statement" and fp[-1].startswith("copula_"):
                    out.add(fp[-1])
    ctx.floor("copula fields written by the enum formatter", len(out), 7)
    return out


def juxtapose_instances(copulas, prefixes, ident):
    """name/copula juxtapositions that contain a different copula across the boundary.
       ('tail', u, c, c2, x): a name ending in u, followed by copula c (and then a name starting with x), contains copula c2 = u + c[..] (+ x)
       ('head', '', c, c3, x): copula c followed by a name starting with x is the longer copula c3 = c + x
       Names are restricted as in the properties: identifier chars, no copula inside, not beginning with an atom prefix, not beginning/ending with '-'."""
    C = sorted(set(copulas))
    P = [p for p in prefixes if p]
    inst = []

    def head_ok(x):
        return bool(x) and ident(x) and not x.startswith("-") and not any(x.startswith(p) for p in P) and not any(c in x for c in C)
    for c2 in C:
        for k in range(1, len(c2)):
            u, v = c2[:k], c2[k:]
            if not ident(u) or u.endswith("-") or any(c in u for c in C):
                continue
            for c in C:
                if c.startswith(v):
                    inst.append(("tail", u, c, c2, ""))
                elif v.startswith(c) and head_ok(v[len(c):]):
                    inst.append(("tail", u, c, c2, v[len(c):]))
    for c in C:
        for c3 in C:
            if c3 != c and c3.startswith(c) and head_ok(c3[len(c):]):
                inst.append(("head", "", c, c3, c3[len(c):]))
    return inst


def rule_T_JUXTAPOSE(ctx, T, models=("enum", "lex"), only_written=None):
    """only_written: restrict to instances whose WRITTEN copula is in the given role set (C10: derived copulas)"""
    ctx.rule("T-JUXTAPOSE", "unique tokenisation where a name touches a copula: both name scanners stop at the first position where ANY copula "
             "starts, so no copula may be obtainable as (identifier-character tail of a well-formed name) + (beginning of a copula), nor as "
             "(copula) + (identifier-character head of a name); computed from the copula tables and the identifier predicates. "
             "A self-test on a synthetic table (copulas 是 / 具有 / 有) must produce the 具+有 instance on every run")
    syn = juxtapose_instances(["是", "具有", "有"], ["$"], lambda s: all(ch.isalnum() or ch in "_-" for ch in s))
    if ("tail", "具", "有", "具有", "") not in syn:
        from canary import CanarySilent
        raise CanarySilent("T-JUXTAPOSE does not find the synthetic 具+有 collision: %s" % syn)
    total = 0
    for name in T.names:
        for model in models:
            try:
                if model == "enum":
                    e = T.e_roles(name)
                    cops, pre, ident = e["copula"], list(e["prefix"].values()), _ident_fn(ctx, e["fn"]["is_valid_atom_name"])
                    written = None if only_written is None else {kw for fld, kw in cops.items() if fld in only_written}
                    cops = list(cops.values())
                else:
                    l = T.l_roles(name)
                    cops, pre, ident = list(l["copula"]), list(l["prefix"]), _ident_fn(ctx, l["fn"]["is_identifier"])
                    written = None
                    if only_written is not None:
                        e = T.e_roles(name)
                        written = {kw for fld, kw in e["copula"].items() if fld in only_written}
                inst = juxtapose_instances(cops, pre, ident)
            except Unrecognised as u:
                ctx.unrecognised("T-JUXTAPOSE", "%s %s" % (model, name), u.what)
                continue
            if written is not None:
                inst = [i for i in inst if i[2] in written]
            # atom prefix + name head: a longer prefix must not be obtainable as (prefix) + (identifier-character head of a name)
            if only_written is None or model == "enum":
                P = [x for x in pre if x]
                for p1 in sorted(set(P) | {""}):
                    for p2 in sorted(set(P)):
                        if p2 != p1 and p2.startswith(p1):
                            x = p2[len(p1):]
                            head_ok = bool(x) and ident(x) and not x.startswith("-") and (p1 != "" )
                            if head_ok and not any(x.startswith(q) for q in P):
                                ctx.ob("T-JUXTAPOSE", "%s %s prefix %r + name starting %r reads as prefix %r" % (model, name, p1, x, p2), False,
                                       "the longer prefix wins the first-match: the atom kind and the name change")
            total += len(cops)
            for kind, u, c, c2, x in inst:
                if kind == "tail":
                    key = "%s %s name ending %r + copula %r%s reads as copula %r" % (model, name, u, c, (" + name starting %r" % x) if x else "", c2)
                else:
                    key = "%s %s copula %r + name starting %r reads as copula %r" % (model, name, c, x, c2)
                ctx.ob("T-JUXTAPOSE", key, False, "the name scanner stops where %r starts: the statement is tokenised with a shorter name and the other copula "
                       "(or fails with an empty name)" % c2)
            if not inst:
                ctx.ob("T-JUXTAPOSE", "%s %s: no copula arises across a name/copula boundary" % (model, name), True)
    ctx.floor("copulas examined for juxtaposition", total, 26 if only_written is None else 1)


def rule_T_BUDGET_IDENT(ctx, T, models=("enum", "lex")):
    ctx.rule("T-BUDGET-IDENT", "the budget alternative is tried first at the start of the input in both parsers, so the budget brackets must not be "
             "spellable inside a well-formed atom name: opening + closing bracket consisting of identifier characters only (and not starting "
             "with an atom prefix) make a top-level word such as <open><close>x read as an empty budget followed by x")
    for name in T.names:
        for model in models:
            try:
                if model == "enum":
                    e = T.e_roles(name)
                    br, pre, ident = e["single"]["task.budget_brackets"], list(e["prefix"].values()), _ident_fn(ctx, e["fn"]["is_valid_atom_name"])
                    cops = list(e["copula"].values())
                else:
                    l = T.l_roles(name)
                    br, pre, ident = l["single"]["task.budget_brackets"], list(l["prefix"]), _ident_fn(ctx, l["fn"]["is_identifier"])
                    cops = list(l["copula"])
            except Unrecognised as u:
                ctx.unrecognised("T-BUDGET-IDENT", "%s %s" % (model, name), u.what)
                continue
            w = br[0] + br[1]
            bad = bool(br[0]) and bool(br[1]) and ident(w) and not w.startswith("-") and not any(w.startswith(p) for p in pre if p) \
                and not any(c in w for c in cops)
            ctx.ob("T-BUDGET-IDENT", "%s %s budget brackets %r…%r are not spellable in an atom name" % (model, name, br[0], br[1]), not bad,
                   "a top-level word beginning %r (or %r<digits>%r) is consumed as a budget: the sentence becomes a task with a shorter term, "
                   "or the parse fails with a missing term" % (w, br[0], br[1]))


def rule_T_IDENT_CLASS(ctx, T, models=("enum", "lex")):
    ctx.rule("T-IDENT-CLASS", "the identifier predicate of every table accepts at least char::is_alphanumeric (every Unicode letter and number: "
             "the formatters print names verbatim and the README grammar's atom_char = LETTER | NUMBER | \"_\" | \"-\") plus '_' and '-'; a "
             "narrower class (e.g. is_alphabetic || is_ascii_digit) cuts names with non-ASCII digits")
    for name in T.names:
        for model in models:
            try:
                fn = T.e_roles(name)["fn"]["is_valid_atom_name"] if model == "enum" else T.l_roles(name)["fn"]["is_identifier"]
                p = char_pred(ctx.facts, fn)
            except (Unrecognised, KeyError) as u:
                ctx.unrecognised("T-IDENT-CLASS", "%s %s" % (model, name), getattr(u, "what", str(u)))
                continue
            ok = ("call", "std::char::methods::<impl char>::is_alphanumeric") in p and ("lit", "_") in p and ("lit", "-") in p
            ctx.ob("T-IDENT-CLASS", "%s %s identifier predicate ⊇ is_alphanumeric ∪ {_,-}" % (model, name), ok, "%s" % sorted(p))


def rule_T_SPACE(ctx, T, models=("enum", "lex")):
    ctx.rule("T-SPACE", "what the formatters write between terms / items is something the parsers skip: every table's space.format_terms and "
             "space.format_items consist only of repetitions of its space.parse keyword (enum) / of whitespace characters (lexical, whose "
             "parser strips char::is_whitespace) -- possibly empty")
    for name in T.names:
        if "enum" in models:
            sp = T.enum[name]["space"]
            unit = sp.get("parse") or ""
            for fld in ("format_terms", "format_items"):
                v = sp.get(fld)
                ok = isinstance(v, str) and (v == "" or (unit and v.replace(unit, "") == ""))
                ctx.ob("T-SPACE", "enum %s space.%s %r is skippable" % (name, fld, v), ok, "not a repetition of space.parse %r" % unit)
        if "lex" in models:
            sp = T.lex[name]["space"]
            for fld in ("format_terms", "format_items"):
                v = sp.get(fld)
                ok = isinstance(v, str) and all(ch.isspace() for ch in v)
                ctx.ob("T-SPACE", "lexical %s space.%s %r is whitespace" % (name, fld, v), ok, "contains a non-whitespace character")


# ----------------------------------------------------------------------------
# T-CROSS: a keyword shared by two vocabularies names the same constructor in both
CROSS_FAMILIES = ("atom.prefix_", "compound.connecter_", "statement.copula_", "sentence.punctuation_", "sentence.stamp_")


def _flat(d, pre=""):
    out = {}
    if isinstance(d, dict):
        for k, v in d.items():
            out.update(_flat(v, pre + "." + k if pre else k))
    elif isinstance(d, (list, tuple)):
        for i, v in enumerate(d):
            out.update(_flat(v, "%s.%d" % (pre, i)))
    elif isinstance(d, str):
        out[pre] = d
    return out


def rule_T_CROSS(ctx, T):
    """sibling agreement between the enum format tables: within one role family (atom prefixes, compound connecters, copulas, punctuations,
    stamp kinds) a keyword string that occurs in two formats stands under the same field in both -- ASCII `/` and LaTeX `/` are the same
    connecter (seed c10-t: the two image connecters of the LaTeX table exchanged; LaTeX stays self-consistent, so only the agreement with
    its sibling tables shows it)"""
    ctx.rule("T-CROSS", "within a role family (atom prefixes, connecters, copulas, punctuations, stamp kinds) a keyword shared by two enum format "
             "tables is the keyword of the same constructor in both")
    flat = {n: _flat(t) for n, t in sorted(T.enum.items())}
    names = sorted(flat)
    n = 0
    for fam in CROSS_FAMILIES:
        for i, a in enumerate(names):
            for b in names[i + 1:]:
                inv = {}
                for k, v in flat[b].items():
                    if k.startswith(fam) and v.strip():
                        inv.setdefault(v, []).append(k)
                for k, v in sorted(flat[a].items()):
                    if k.startswith(fam) and v.strip() and v in inv:
                        n += 1
                        ctx.ob("T-CROSS", "%s %s = %s %r" % (a, k, b, v), k in inv[v], "%s has %r under %s" % (b, v, inv[v]))
    ctx.floor("keywords shared between enum format tables", n, 1)


# ----------------------------------------------------------------------------
# T-TENSE: the tense marker of a temporal copula is the same in the implication and in the equivalence family
def _marker(words):
    """the part of each word that is left when the common prefix and the common suffix of all words are removed"""
    ws = list(words)
    pre = os.path.commonprefix(ws)
    suf = os.path.commonprefix([w[::-1] for w in ws])[::-1]
    out = []
    for w in ws:
        core = w[len(pre):]
        if suf and core.endswith(suf) and len(core) >= len(suf):
            core = core[:len(core) - len(suf)]
        out.append(core)
    return out


def rule_T_TENSE(ctx, T):
    """sibling analogy inside one vocabulary: predictive / concurrent / retrospective implication and equivalence are written with the same
    tense marker (ASCII `/ | \\`, Han 将 现 曾, LaTeX `/ | \\backslash`), whatever the marker is.  The markers are READ from the table (common
    prefix and suffix of the three copulas of a family removed), nothing is frozen (seed c10-v: predictive and retrospective equivalence
    exchanged in the LaTeX table -- self-consistent for parser, fold and formatter, and no keyword is shared with another vocabulary)"""
    ctx.rule("T-TENSE", "in every enum format table the three temporal implications and the three temporal equivalences carry the same tense "
             "marker per tense (the marker is what distinguishes the three copulas of a family)")
    tenses = ("predictive", "concurrent", "retrospective")
    n = 0
    for name, t in sorted(T.enum.items()):
        st = t.get("statement", {}) if isinstance(t, dict) else {}
        imp = [st.get("copula_implication_%s" % x) for x in tenses]
        eqv = [st.get("copula_equivalence_%s" % x) for x in tenses]
        if not all(isinstance(x, str) and x for x in imp + eqv):
            raise AnchorMissing("temporal copulas of %s" % name)
        mi, me = _marker(imp), _marker(eqv)
        for x, a, b in zip(tenses, mi, me):
            n += 1
            ctx.ob("T-TENSE", "%s %s" % (name, x), a == b and len(set(mi)) == 3, "implication marker %r, equivalence marker %r (markers %s / %s)" % (a, b, mi, me))
    ctx.floor("temporal copula pairs", n, 9)
