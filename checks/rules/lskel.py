"""L-SKELETON: production skeletons of the lexical parser and of the lexical->enum fold, compared with the reviewed reference
checks/tables/lexical_skeletons.json.  Same idea as P-SKELETON, different vocabulary (the lexical parser works on borders, not a cursor):
    dict    which dictionary / bracket pair of the format is matched (match_prefix_char_slice / match_suffix_char_slice on which table field)
    call    which segmenter / fold helper / enum constructor is called (argument keys: table fields, positional parameters, anonymous locals)
    push    a parsed component is stored (terms.push / set.insert / vec.extend)
    trim    which bracket is trimmed from which side (trim_start_matches / trim_end_matches with the table field)
    filter  the element filter of a split (its predicate rendered binder-independently)
    make    which lexical value is built with which fields
    parse   parse::<T>(field) of the fold (type and field)
with branch structure.  Border arithmetic and comparisons are NOT part of the skeleton (B-LEN / the dedicated shape rules own them), so the
rule stays silent on refactorings of the arithmetic and fires when a component is dropped, a bracket side or a dictionary is exchanged, a
helper is handed another table, or an item is folded with another parser."""
import json, os, re
import hir, maps, emit
from hir import strip, field_path
from pskel import Skel, to_json, diff, PARAMS, argkey, ITER_LOOPS

TABLE = os.path.join(os.path.dirname(os.path.dirname(os.path.abspath(__file__))), "tables", "lexical_skeletons.json")
MODULES = ("impl_lexical::parser", "lexical_fold::impl_enum")
EXTRA_FUNCTIONS = ("enum_narsese::term::impls",)      # helper constructors / accessors of the term model: stores and dispatch only
DICT = {"match_prefix_char_slice", "match_suffix_char_slice", "match_prefix", "match_suffix"}
STORE = {"push", "insert", "extend", "push_str"}
CRATE_MARKS = ("conversion::", "lexical::", "enum_narsese::", "api::")


class LSkel(Skel):
    def norm(self, ops):
        out = []
        for o in Skel.norm(self, ops):
            if o and o[0] == "loop" and o[1] and all(x == ("push",) for x in o[1]):
                out.append(("push",))          # `for t in src { vec.push(t) }` is `vec.extend(src)`
            else:
                out.append(o)
        return tuple(out)

    def ops(self, e):
        if e is None:
            return []
        e0 = strip(e)
        k = e0["k"]
        if k == "MethodCall":
            m = e0["method"]
            inner = self.ops(e0["recv"])
            cb_ = self.combinator(e0, inner)
            if cb_ is not None:
                return cb_
            for a in e0["args"]:
                if m in ITER_LOOPS and m != "filter" and strip(a).get("k") == "Closure":
                    b_ = self.norm(self.ops(strip(a)["body"]))          # `it.for_each(|x| B)` is `for x in it { B }`
                    inner += [("loop", b_)] if b_ else []
                else:
                    inner += self.ops(a)
            rp = field_path(strip(e0["recv"]))
            if m == "collect" and not e0["args"]:
                # `it.map(f).collect::<Result<Vec<_>, _>>()` is `for x in it { v.push(f(x)?) }`: adaptors are lazy, so their closures run
                # per item inside the one loop that stores the items (a plain container stores every item, a Result / Option container
                # stops at the first failure)
                ty = e0.get("ty") or ""
                cont = any(x in ty for x in ("::Vec<", "::HashSet<", "::VecDeque<", "::BTreeSet<"))
                fall = ty.startswith(("std::result::Result<", "std::option::Option<", "core::result::Result<", "core::option::Option<"))
                if cont:
                    pre, fused = list(inner), []
                    while pre and pre[-1][0] == "loop":
                        fused = list(pre.pop()[1]) + fused
                    return pre + [("loop", tuple(fused) + ((("?",),) if fall else ()) + (("push",),))]
            if m in DICT:
                tf = maps.table_field(rp) if rp else None
                return inner + [("dict", m, tf or argkey(e0["recv"]))]
            if m in ("trim_start_matches", "trim_end_matches", "strip_prefix", "strip_suffix") and e0["args"]:
                return inner + [("trim", m, argkey(e0["args"][0]))]
            if m in STORE and rp and len(rp) == 1 and not rp[0].endswith("buffer"):
                ty = (strip(e0["recv"]).get("ty") or "")
                if "Term" in ty or "String>" in ty or "HashSet" in ty or "Vec<" in ty:
                    return inner + [("push",)]          # push / insert / extend: a component is stored (one by one or in bulk)
            if m == "filter" and e0["args"] and strip(e0["args"][0])["k"] == "Closure":
                return inner + [("filter", emit.label(e0["args"][0], {}))]
            if m == "parse" and e0.get("ty") and e0["args"]:
                ty = re.sub(r".*Result<([^,>]*).*", r"\1", e0["ty"]).rsplit("::", 1)[-1]
                return inner + [("parse", ty, argkey(e0["args"][0]))]
            d = e0.get("def") or ""
            if any(x in d for x in CRATE_MARKS) and m in ("err", "parse_error"):
                return inner + [("err",)]          # an error value is built (however it is spelled): `return err` and `return ok` must differ
            if any(x in d for x in CRATE_MARKS) and not d.endswith(("::clone", "::to_owned")):
                return inner + [("call", m) + tuple(argkey(a) for a in e0["args"])]
            return inner
        if k == "Call":
            nm = hir.callee_name(e0) or ""
            d = hir.callee(e0) or ""
            inner = []
            for a in e0["args"]:
                inner += self.ops(a)
            if (nm == "Err" and len(e0["args"]) == 1 and strip(e0["f"]).get("k") == "Path" and strip(e0["f"])["path"].get("defkind", "").startswith("Ctor")) \
                    or (any(x in d for x in CRATE_MARKS) and nm in ("err", "parse_error")):
                return inner + [("err",)]
            if nm == "branch" and len(e0["args"]) == 1:
                if strip(e0["args"][0]).get("inlined_from"):
                    return inner          # `new_helper(..)?`: the helper's body stands here, its own returns are the exits
                return inner + [("?",)]
            if any(x in d for x in CRATE_MARKS) and nm not in ("ok", "err", "parse_error"):
                return inner + [("call", nm) + tuple(argkey(a) for a in e0["args"] if field_path(a) != ("self",))]
            return inner
        if k == "Struct":
            out = []
            for fd in e0["fields"]:
                out += self.ops(fd["expr"])
            nm = (hir.variant_of(e0["path"]) or e0["path"].get("text") or "").rsplit("::", 1)[-1]
            d = e0["path"].get("def") or e0["path"].get("parent") or ""
            if "lexical::" in d or nm in ("Set", "Compound", "Statement", "Atom", "Sentence", "Task", "MidParseResult"):
                out.append(("make", nm, tuple(sorted(fd["name"] for fd in e0["fields"]))))
            return out
        if k == "Binary":
            # comparisons / arithmetic are not part of this skeleton; operands may still contain calls
            return self.ops(e0["l"]) + self.ops(e0["r"])
        return Skel.ops(self, e)


LEMPTY = set()


def extract_all(facts):
    sk = LSkel(facts)
    out = {}
    LEMPTY.clear()
    for p, it in sorted(facts.hir.items()):
        if it.get("body") is None or "::tests" in p or "::test" in p or it["defkind"] not in ("Fn", "AssocFn", "Closure"):
            continue
        if not (any(m in p for m in MODULES) or any(m in p for m in EXTRA_FUNCTIONS)):
            continue
        if it["defkind"] == "Closure" or it["name"] in ("clone", "fmt", "eq", "ne", "partial_cmp", "default"):
            continue            # closures are walked as part of their parent; derived / formatting impls are not productions
        s = to_json(sk.of_fn(it))
        if not s:
            LEMPTY.add(it["name"])
            continue
        im = (it.get("impl") or {})
        st = im.get("self_ty") or ""
        head = ""
        if st:
            inner = st.split("Result<", 1)[1] if st.startswith("std::result::Result<") else st
            head = inner.split("<")[0].split(",")[0].strip().rsplit("::", 1)[-1] + "::"
        mod = "fold" if "lexical_fold" in p else "lexical" if "impl_lexical" in p else "term"
        key = "%s %s%s" % (mod, head, it["name"])
        n, base = 2, key
        while key in out:
            key = "%s#%d" % (base, n)
            n += 1
        out[key] = (s, it)
    return out


def rule_L_SKELETON(ctx, which=("lexical", "fold", "term"), floor=12):
    ctx.rule("L-SKELETON", "production skeleton of every function of the lexical parser, of the lexical->enum fold and of the term model's helper "
             "constructors (dictionary matched, segmenter / helper / constructor called with which table, component stored, bracket trimmed from "
             "which side, split filter, value built, parse::<T>(field)) equals the reviewed skeleton of that function")
    try:
        ref = json.load(open(TABLE, encoding="utf-8"))["skeletons"]
    except OSError:
        from facts import AnchorMissing
        raise AnchorMissing("checks/tables/lexical_skeletons.json")
    got = {k: v for k, v in extract_all(ctx.facts).items() if k.split(" ")[0] in which}
    ctx.floor("functions with a lexical / fold / term-helper skeleton", len(got), floor)
    for name, (s, it) in sorted(got.items()):
        ctx.fn(it)
        r = ref.get(name)
        site = "%s:%s" % (it["span"]["file"], it["span"]["line"])
        if r is None:
            # a function added next to the reviewed ones is not evidence against the property (control: a new unrelated API); it is listed
            ctx.extra.setdefault("unreviewed_new_functions", []).append(name)
            continue
        d = diff(r["skeleton"], s)
        ctx.ob("L-SKELETON", name, d is None, d or "", site)
    for name in sorted(n for n in set(ref) - set(got) if n.split(" ")[0] in which):
        if name.rsplit("::", 1)[-1].split(" ")[-1].split("#")[0] in LEMPTY:
            ctx.ob("L-SKELETON", name, False, "the function's skeleton is empty now (its reviewed skeleton is gone)")
        else:
            ctx.extra.setdefault("reviewed_functions_removed", []).append(name)       # inlined / renamed: the callers are compared with their own skeletons


if __name__ == "__main__":
    import sys
    sys.path[:0] = [os.path.join(os.path.dirname(os.path.dirname(os.path.abspath(__file__))), "lib")]
    import facts
    got = extract_all(facts.load())
    print(json.dumps({"_doc": "Reviewed production skeletons of the lexical parser, the fold and the term helper constructors; regenerate with "
                              "`python3 checks/rules/lskel.py > checks/tables/lexical_skeletons.json` and REVIEW the diff.",
                      "skeletons": {k: {"skeleton": v[0]} for k, v in sorted(got.items())}}, ensure_ascii=False, indent=1))
