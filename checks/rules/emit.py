"""F-SKELETON: symbolic evaluation of string-emitting template/formatter functions (HIR) to a skeleton:
   list of  'sym'                       -- a pushed operand (parameter name / table field / expression label)
           ('join', items, [seps])      -- for (i,x) in items.enumerate(): if i != 0 {push seps}; push x
           ('joinlest', [a,b,c], sep)   -- nar_dev_utils::join_lest_multiple_separators (first item, then sep+item for non-empty items)
           ('flush', buffer, sep)       -- nar_dev_utils::add_space_if_necessary_and_flush_buffer (sep+buffer if buffer non-empty)
           ('ifnot', cond, [..])        -- emitted unless `cond` (early return / conditional)
           ('match', {variant: [..]})
Dependency helpers are summarised from the pinned nar_dev_utils source (deps.py asserts version+hash)."""
import hir, hirpp
from hir import strip, field_path, Unrecognised, callee, callee_name


def label(e, env):
    e = strip(e)
    while e["k"] == "AddrOf" or (e["k"] == "Unary" and e["op"] == "*"):
        e = strip(e["e"])
    p = field_path(e)
    if p:
        if p[0] in env:
            v = env[p[0]]
            if len(p) == 1:
                return v
            if isinstance(v, str):
                return ".".join((v,) + p[1:])
        if p[0] == "self":
            return ".".join(("fmt",) + p[1:])
        return ".".join(p)
    if e["k"] in ("MethodCall", "Call"):
        nm = callee_name(e)
        args = hir.call_args(e)
        inner = [label(a, env) for a in args if field_path(a) != ("self",)]
        return "%s(%s)" % (nm, ",".join(str(x) for x in inner))
    if e["k"] == "Block":
        # `catch_flow!(f; args)` = { let mut out = String::new(); f(&mut out, args); out }
        bufs = [s_["pat"]["name"] for s_ in e["stmts"] if s_["k"] == "Let" and s_["pat"]["k"] == "Binding" and s_.get("init") is not None
                and strip(s_["init"])["k"] == "Call" and (callee(strip(s_["init"])) or "").endswith("String::new")]
        calls = [strip(s_["expr"]) for s_ in e["stmts"] if s_["k"] in ("Semi", "Expr")]
        if len(bufs) == 1 and len(calls) == 1 and calls[0]["k"] in ("Call", "MethodCall") and e.get("expr") is not None and field_path(e["expr"]) == (bufs[0],):
            c = calls[0]
            args = [a for a in hir.call_args(c) if field_path(a) not in (("self",), (bufs[0],))]
            return "%s(%s)" % (callee_name(c), ",".join(str(label(a, env)) for a in args))
    if e["k"] == "Lit":
        return repr(e["lit"]["v"])
    if e["k"] == "Binary":
        return "%s(%s,%s)" % (e["op"], label(e["l"], env), label(e["r"], env))
    if e["k"] == "Array":
        return "[%s]" % ",".join(str(label(x, env)) for x in e["elems"])
    if e["k"] == "Match":
        # `match o { Some(x) => x, None => d }` is `o.unwrap_or(d)`
        try:
            av = {v: (a, pat) for v, a, pat in hir.arms_by_variant(e)}
            if set(av) == {"Some", "None"}:
                sa, sp = av["Some"]
                binds = hir.pat_bindings(sp) or [fd["pat"].get("name") for fd in sp.get("fields", [])]
                if len(binds) == 1 and field_path(sa["body"]) == (binds[0],):
                    return "unwrap_or(%s,%s)" % (label(e["scrut"], env), label(av["None"][0]["body"], env))
        except Unrecognised:
            pass
        try:
            # disjoint arms: order-free.  `_ => B` and the explicit list of the remaining variants `V1 | V2 | .. => B` are one thing: the
            # arms are grouped by body; the wildcard's group (or, without a wildcard, the largest group of at least two variants) is `_`
            groups, wild_body = {}, None
            for v, a, pat in hir.arms_by_variant(e):
                bl_ = str(label(a["body"], env))
                if v == "_":
                    wild_body = bl_
                else:
                    groups.setdefault(bl_, []).append(str(v))
            if wild_body is None and groups:
                big = max(groups.items(), key=lambda kv: (len(kv[1]), kv[0]))
                if len(big[1]) >= 2:
                    wild_body = big[0]
            arms = []
            for bl_, vs_ in groups.items():
                if bl_ == wild_body:
                    continue
                arms += ["%s=>%s" % (v, bl_) for v in vs_]
            if wild_body is not None:
                arms.append("_=>%s" % wild_body)
            return "match(%s){%s}" % (label(e["scrut"], env), ";".join(sorted(arms)))
        except Unrecognised:
            return "<Match>"
    if e["k"] == "Closure":
        env2 = dict(env)
        for q in e.get("params", []):
            if q.get("k") == "Binding":
                env2[q["name"]] = "item"
        return "|item|%s" % label(e["body"], env2)
    if e["k"] == "Unary" and e.get("op") in ("!", "Not"):
        return "!(%s)" % label(e["e"], env)
    return "<%s>" % e["k"]


# every spelling of "not the first item" / "the first item" for an unsigned enumerate counter, after hir.as_branch has reduced comparisons to
# `<` and `==` (`i != 0` -> else-branch of `i == 0`; `i > 0` -> `0 < i`; `i >= 1` -> else-branch of `i < 1`)
NOT_FIRST = {"<(0,index)", "Lt(0,index)"}
IS_FIRST = {"==(index,0)", "Eq(index,0)", "==(0,index)", "Eq(0,index)", "<(index,1)", "Lt(index,1)"}
JOIN_CONDS = {"!=(index,0)", "Ne(index,0)", ">(index,0)", "Gt(index,0)", "!=(0,index)", "Ne(0,index)", "<(0,index)", "Lt(0,index)",
              ">=(index,1)", "Ge(index,1)", "<=(1,index)", "Le(1,index)"}


def canon_into(seq):
    """filling a local buffer commutes with writes to the sink (the sub-formatters only write): every ('into', buffer, ..) is placed right
    before the next element of the sequence that mentions that buffer (its flush), or at the end -- so `fill buffer; write budget; flush`
    and `write budget; fill buffer; flush` are one skeleton"""
    out = list(seq)
    i = len(out) - 1
    while i >= 0:
        o = out[i]
        if isinstance(o, tuple) and o and o[0] == "into":
            j = i + 1
            while j < len(out) and o[1] not in repr(out[j]):
                j += 1
            if j > i + 1:
                x = out.pop(i)
                out.insert(j - 1, x)
        i -= 1
    return out


def _neg(c):
    c = str(c)
    return c[2:-1] if c.startswith("!(") and c.endswith(")") else "!(%s)" % c


def canon_tail_if(seq):
    """`if c { return } REST` and `if !c { REST }` as the last statement of a function are one skeleton: [('unless', c)] + REST"""
    out = list(seq)
    if out and isinstance(out[-1], tuple) and out[-1][0] == "if":
        _, c, then, els = out[-1]
        if then and not els:
            return out[:-1] + [("unless", _neg(c))] + canon_tail_if(then)
        if els and not then:
            return out[:-1] + [("unless", c)] + canon_tail_if(els)
    return out


class Emit:
    def __init__(self, facts, sink_names=("out", "s")):
        self.f = facts
        self.sinks = set(sink_names)
        self.lets = {}

    def is_sink(self, e, env):
        p = field_path(e)
        return bool(p) and len(p) == 1 and env.get(p[0]) == "@sink"

    def fn(self, path, args, depth=0):
        it = self.f.hir.get(path)
        if it is None or depth > 5:
            raise Unrecognised("cannot inline %s" % path)
        env = {}
        self.lets.update(hir.let_env(it["body"]))
        for i, p in enumerate(it["params"]):
            if p["k"] == "Binding":
                if i < len(args):
                    env[p["name"]] = args[i]
                elif p["name"] in self.sinks:
                    env[p["name"]] = "@sink"
                elif p["name"] != "self":
                    env[p["name"]] = p["name"]
        return canon_tail_if(self.block(it["body"], env, depth, path))

    def block(self, e, env, depth, owner):
        e = strip(e)
        out = []
        if e["k"] != "Block":
            return self.stmt_expr(e, env, depth, owner)
        env = dict(env)
        skip = set()
        for si_, s in enumerate(e["stmts"]):
            if si_ in skip:
                continue
            fj = self.first_then_rest(e["stmts"], si_, env, depth, owner)
            if fj is not None:
                out.append(fj)
                skip.update((si_ + 1, si_ + 2))
                continue
            if s["k"] == "Let" and s["pat"].get("k") == "Wild" and s.get("init") is not None and not s.get("els"):
                # `let _ = sink.push_str(x);` (the expansion of `manipulate!(out => .push_str(x))`) is the statement `sink.push_str(x);`
                out += self.stmt_expr(s["init"], env, depth, owner)
                continue
            if s["k"] == "Let":
                if s["pat"]["k"] == "Slice" and s.get("init") is not None and strip(s["init"])["k"] == "Array" and not s["pat"].get("slice") \
                        and len(s["pat"].get("before", [])) + len(s["pat"].get("after", []) or []) == len(strip(s["init"])["elems"]):
                    # `let [a, b, c] = [x, y, z];` (e.g. the parts array of a helper that was split off): each binding is that element
                    for q, el_ in zip(list(s["pat"].get("before", [])) + list(s["pat"].get("after", []) or []), strip(s["init"])["elems"]):
                        if q.get("k") == "Binding":
                            env[q["name"]] = label(el_, env)
                    continue
                if s["pat"]["k"] == "Tuple" and s.get("init") is not None and strip(s["init"])["k"] == "Match" \
                        and all(strip(hir.last_expr(a_["body"]))["k"] == "Tup" and len(strip(hir.last_expr(a_["body"]))["elems"]) == len(s["pat"]["pats"])
                                for a_ in strip(s["init"])["arms"]):
                    # `let (p, c) = match x { V => (A, B), .. };` is `let p = match x { V => A, .. }; let c = match x { V => B, .. };`
                    m_ = strip(s["init"])
                    for i_, q in enumerate(s["pat"]["pats"]):
                        while q.get("k") in ("Ref", "Box", "Deref"):
                            q = q["pat"]
                        if q.get("k") == "Binding":
                            comp = dict(m_, arms=[dict(a_, body=strip(hir.last_expr(a_["body"]))["elems"][i_]) for a_ in m_["arms"]])
                            env[q["name"]] = label(comp, env)
                    continue
                if s["pat"]["k"] == "Tuple" and s.get("init") is not None:
                    # `let (left, right) = brackets;` -- each binding is that component of the bound value
                    base = label(s["init"], env)
                    for i_, q in enumerate(s["pat"].get("pats", [])):
                        while q.get("k") in ("Ref", "Box", "Deref"):
                            q = q["pat"]
                        if q.get("k") == "Binding" and isinstance(base, str):
                            env[q["name"]] = "%s.%d" % (base, i_)
                    continue
                if s["pat"]["k"] == "Binding" and s.get("init") is not None:
                    init = strip(s["init"])
                    if init["k"] == "Call" and (callee(init) or "").endswith("String::new"):
                        nbuf = 1 + sum(1 for v in env.values() if isinstance(v, str) and v.startswith("@buffer:"))
                        env[s["pat"]["name"]] = "@buffer:%d" % nbuf          # binder independent: numbered in declaration order
                    else:
                        env[s["pat"]["name"]] = label(s["init"], env)
                continue
            if s["k"] == "Item":
                continue
            out += self.stmt_expr(s["expr"], env, depth, owner)
        if e.get("expr"):
            out += self.stmt_expr(e["expr"], env, depth, owner)
        return canon_into(out)

    def first_then_rest(self, stmts, i, env, depth, owner):
        """`let Some(first) = it.next() else { return }; sink.push_str(&first); it.for_each(|x| { sink.push_str(sep); sink.push_str(&x) })`
        (or a `for x in it` as the third statement) writes the items of `it` with sep between them: the ("join", ..) op of the
        `enumerate` / `if i != 0` form; else None"""
        if i + 2 >= len(stmts):
            return None
        a, b, c = stmts[i], stmts[i + 1], stmts[i + 2]
        if not (a["k"] == "Let" and a.get("els") is not None and a.get("init") is not None and b["k"] in ("Semi", "Expr") and c["k"] in ("Semi", "Expr")):
            return None
        try:
            if hir.pat_variants(a["pat"]) != {"Some"}:
                return None
        except Unrecognised:
            return None
        sub = (a["pat"].get("pats") or [fd["pat"] for fd in a["pat"].get("fields", [])] or [{}])[0]
        init = strip(a["init"])
        if sub.get("k") != "Binding" or not (init["k"] == "MethodCall" and init["method"] == "next" and not init["args"]):
            return None
        src = field_path(init["recv"])
        if not src or len(src) != 1 or not hir.leaves(a["els"]) or [n for n in hir.walk(a["els"]) if n.get("k") in ("MethodCall", "Call")]:
            return None
        bx = strip(b["expr"])
        if not (bx["k"] == "MethodCall" and bx["method"] in ("push_str", "push") and self.is_sink(bx["recv"], env)):
            return None
        arg = strip(bx["args"][0])
        while arg.get("k") in ("AddrOf", "Deref") or (arg.get("k") == "Unary" and arg.get("op") in ("*", "Deref")):
            arg = strip(arg["e"])
        if field_path(arg) != (sub["name"],):
            return None
        cx = strip(c["expr"])
        is_fe = cx["k"] == "MethodCall" and cx["method"] == "for_each" and field_path(cx["recv"]) == src
        is_for = cx["k"] == "Match" and "ForLoop" in cx.get("source", "") and strip(cx["scrut"])["k"] == "Call" and strip(cx["scrut"])["args"] \
            and field_path(strip(cx["scrut"])["args"][0]) == src
        if not (is_fe or is_for):
            return None
        lp = self.stmt_expr(cx, env, depth, owner)
        if len(lp) == 1 and isinstance(lp[0], tuple) and lp[0][0] == "loop" and len(lp[0][2]) >= 2 and lp[0][2][-1] == "item":
            return ("join", "enumerate(%s)" % lp[0][1], list(lp[0][2][:-1]), "item")
        return None

    def join_value(self, a, env):
        """`sink.push_str(&src.map(f).collect::<Vec<_>>().join(sep))` writes the items of src rendered by f with sep between them: the same
        ("join", ..) op as `for (i, x) in src.enumerate() { if i != 0 { sink.push_str(sep) } sink.push_str(&f(x)) }`; else None"""
        a = strip(hir.through_lets(a, self.lets))
        while a.get("k") in ("AddrOf", "Deref") or (a.get("k") == "Unary" and a.get("op") in ("*", "Deref")) \
                or (a.get("k") == "MethodCall" and a["method"] in ("as_str", "as_ref", "deref", "borrow") and not a["args"]):
            a = strip(a["e"] if "e" in a else a["recv"])
        if not (a.get("k") == "MethodCall" and a["method"] == "join" and len(a["args"]) == 1):
            return None
        r = strip(a["recv"])
        if not (r.get("k") == "MethodCall" and r["method"] == "collect" and not r["args"]):
            return None
        r = strip(r["recv"])
        item = "item"
        if r.get("k") == "MethodCall" and r["method"] == "map" and len(r["args"]) == 1:
            fn_ = strip(r["args"][0])
            if fn_.get("k") == "Closure" and len(fn_.get("params", [])) == 1 and fn_["params"][0].get("k") == "Binding":
                env2 = dict(env)
                env2[fn_["params"][0]["name"]] = "item"
                item = label(fn_["body"], env2)
            elif fn_.get("k") == "Path" and fn_.get("path", {}).get("res") == "def":
                item = "%s(item)" % (fn_["path"].get("def") or fn_["path"].get("text") or "?").rsplit("::", 1)[-1]
            else:
                return None
            r = strip(r["recv"])
        return ("join", "enumerate(%s)" % label(r, env), [label(a["args"][0], env)], item)

    def stmt_expr(self, x, env, depth, owner):
        x = strip(x)
        k = x["k"]
        if k == "Block":
            return self.block(x, env, depth, owner)
        if k == "MethodCall" and x["method"] == "push_str" and self.is_sink(x["recv"], env):
            j = self.join_value(x["args"][0], env)
            if j is not None:
                return [j]
            return [label(x["args"][0], env)]
        if k == "MethodCall" and x["method"] == "push" and self.is_sink(x["recv"], env):
            return [label(x["args"][0], env)]
        br = hir.as_branch(x) if k in ("If", "Match") and "ForLoop" not in x.get("source", "") else None
        if br:
            # `if c {A} else {B}`, `if !c {B} else {A}` and `match c {true => A, false => B}` are one shape (leading `!` folded into the branch order)
            c, then, els_e = br
            # `if cond { return; }`
            t_ret = then is not None and [n for n in hir.walk(then) if n.get("k") == "Ret"]
            e_ret = els_e is not None and [n for n in hir.walk(els_e) if n.get("k") == "Ret"]
            if t_ret and els_e is None:
                return [("unless", label(c, env))]
            if e_ret and then is None:
                return [("unless", _neg(label(c, env)))]
            body = self.block(then, env, depth, owner) if then is not None else []
            els = self.block(els_e, env, depth, owner) if els_e is not None else []
            return [("if", label(c, env), body, els)]
        for_each = k == "MethodCall" and x["method"] == "for_each" and len(x["args"]) == 1 and strip(x["args"][0])["k"] == "Closure"
        if (k == "Match" and "ForLoop" in x.get("source", "")) or for_each:
            # for pat in iter { body }      /      iter.for_each(|pat| body)
            if for_each:
                src = x["recv"]
                cl_ = strip(x["args"][0])
                inner = {"pat": {"k": "TupleStruct", "pats": cl_.get("params", [])}, "body": cl_["body"]}
            else:
                it = strip(x["scrut"])
                src = it["args"][0] if it["k"] == "Call" and it["args"] else it
                lp = x["arms"][0]["body"]
                inner = None
                for n in hir.walk(lp):
                    if n.get("k") == "Match" and n is not x:
                        for a in n["arms"]:
                            if hir.pat_variants(a["pat"]) == {"Some"}:
                                inner = a
                        break
            src_l = label(src, env)
            if inner is None:
                raise Unrecognised("for loop shape", x)
            env = dict(env)
            # loop-bound variables get binder-independent labels
            def bind(p, names):
                if p["k"] == "Binding":
                    env[p["name"]] = names.pop(0) if names else "item"
                elif p["k"] in ("Tuple",):
                    for q in p["pats"]:
                        bind(q, names)
                elif p["k"] in ("TupleStruct",):
                    for q in p["pats"]:
                        bind(q, names)
                elif p["k"] == "Struct":
                    for fd in p["fields"]:
                        bind(fd["pat"], names)
                elif p["k"] in ("Ref", "Box", "Deref"):
                    bind(p["pat"], names)
            enumerated = "enumerate(" in src_l
            bind(inner["pat"], ["index", "item"] if enumerated else ["item"])
            body = self.block(inner["body"], env, depth, owner)
            # recognise the join idiom: [('if', 'i != 0', seps, []), item]
            # join idiom: the separator is written before every item except the first -- the condition must be exactly `index != 0`
            if len(body) == 2 and isinstance(body[0], tuple) and body[0][0] == "if":
                _, c_, th_, el_ = body[0]
                if c_ in NOT_FIRST and th_ and not el_:
                    return [("join", src_l, th_, body[1])]
                if c_ in IS_FIRST and el_ and not th_:
                    return [("join", src_l, el_, body[1])]
            return [("loop", src_l, body)]
        if k == "Match":
            arms = {}
            try:
                by_variant = hir.arms_by_variant(x)
            except Unrecognised:
                # patterns that are not plain variants (tuples, literals, ranges): the arms in source order, keyed by position
                pos_arms = {"arm%d" % i: self.block(a["body"], dict(env), depth, owner) for i, a in enumerate(x["arms"])}
                if not any(pos_arms.values()):
                    return []          # a match that writes nothing in any arm is not part of the emission
                return [("match", label(x["scrut"], env), pos_arms)]
            for v, arm, pat in by_variant:
                env2 = dict(env)
                if pat["k"] == "Struct":
                    for fd in pat["fields"]:
                        q = fd["pat"]
                        while q["k"] in ("Ref", "Box", "Deref"):
                            q = q["pat"]
                        if q["k"] == "Binding":
                            env2[q["name"]] = fd["name"]      # binder-independent: the ADT's field name
                elif pat["k"] == "TupleStruct":
                    for i, q in enumerate(pat["pats"]):
                        while q["k"] in ("Ref", "Box", "Deref"):
                            q = q["pat"]
                        if q["k"] == "Binding":
                            env2[q["name"]] = "field%d" % i
                arms[v] = self.block(arm["body"], env2, depth, owner)
            if not any(arms.values()):
                return []          # a match that writes nothing in any arm is not part of the emission
            return [("match", label(x["scrut"], env), arms)]
        if k in ("Call", "MethodCall"):
            nm = callee_name(x)
            args = hir.call_args(x)
            c = callee(x)
            if nm == "join_lest_multiple_separators" and self.is_sink(args[0], env):
                arr = [n for n in hir.walk(hir.through_lets(args[1], self.lets)) if n.get("k") == "Array"]      # `let items = [a, b, c];` read through
                items = [label(a, env) for a in arr[0]["elems"]] if arr else [label(args[1], env)]
                return [("joinlest", items, label(args[2], env))]
            if nm == "join_to" and self.is_sink(args[0], env):
                return [("join", label(args[1], env), [label(args[2], env)], "item")]
            if nm == "post_process_whitespace":
                return [("post_process_whitespace", label(args[0], env))]      # its own shape is F-POST's business (C16)
            if nm == "add_space_if_necessary_and_flush_buffer" and self.is_sink(args[0], env):
                return [("flush", label(args[1], env), label(args[2], env))]
            # call of a local function that receives the sink (or a buffer): inline
            sink_pos = [i for i, a in enumerate(args) if self.is_sink(a, env) or (isinstance(label(a, env), str) and label(a, env).startswith("@buffer:"))]
            if c in self.f.hir and sink_pos:
                sub_args = []
                for i, a in enumerate(args):
                    if i in sink_pos and self.is_sink(a, env):
                        sub_args.append("@sink")
                    elif i in sink_pos:
                        sub_args.append("@sink")   # writing into a buffer that is flushed later
                    else:
                        sub_args.append(label(a, env))
                sub = self.fn(c, sub_args, depth + 1)
                tgt = label(args[sink_pos[0]], env)
                if isinstance(tgt, str) and tgt.startswith("@buffer:"):
                    return [("into", tgt, sub)]
                return sub
            return []
        if k == "Ret":
            return [("return",)]
        return []


def flat(sk):
    """flatten nested plain sequences for comparison/printing"""
    out = []
    for x in sk:
        out.append(x)
    return out


# ----------------------------------------------------------------------------
# F-SKELETON-ALL: every formatter function against its reviewed emission skeleton
import json as _json, os as _os
FMT_TABLE = _os.path.join(_os.path.dirname(_os.path.dirname(_os.path.abspath(__file__))), "tables", "formatter_skeletons.json")
FMT_MODULES = ("impl_enum::formatter", "impl_lexical::formatter", "common::common_narsese_templates", "typst_formatter::formatter_enum")


def _tojson(x):
    if isinstance(x, (tuple, list)):
        return [_tojson(y) for y in x]
    if isinstance(x, dict):
        return {str(k): _tojson(v) for k, v in sorted(x.items(), key=lambda kv: str(kv[0]))}
    return x


def formatter_skeletons(facts):
    em = Emit(facts)
    out = {}
    for p, it in sorted(facts.hir.items()):
        if not any(m in p for m in FMT_MODULES) or it.get("body") is None or "::tests" in p or "::test" in p or it["defkind"] not in ("Fn", "AssocFn"):
            continue
        args = []
        k_ = 0
        for q in it["params"]:
            if q["k"] == "Binding" and q["name"] == "self":
                args.append("fmt")
                continue
            k_ += 1
            ty = (q.get("ty") or "")
            if q["k"] != "Binding":
                args.append("$_")
            elif q["name"] in ("out", "s") or "&mut std::string::String" in ty:
                args.append("@sink")
            else:
                args.append("$%d" % k_)        # positional: binder independent
        try:
            sk = em.fn(p, args)
        except Unrecognised as u:
            sk = [("unrecognised", str(u.what)[:80])]
        key = "%s::%s" % ("enum" if "impl_enum" in p else "lexical" if "impl_lexical" in p else "typst" if "typst_formatter" in p else "template", it["name"])
        n, base = 2, key
        while key in out:
            key = "%s#%d" % (base, n)
            n += 1
        out[key] = (_tojson(sk), it)
    return out


def _diff(a, b, path="#"):
    if isinstance(a, list) and isinstance(b, list):
        for i in range(max(len(a), len(b))):
            if i >= len(a):
                return "%s[%d]: extra %s" % (path, i, _json.dumps(b[i], ensure_ascii=False)[:120])
            if i >= len(b):
                return "%s[%d]: missing %s" % (path, i, _json.dumps(a[i], ensure_ascii=False)[:120])
            d = _diff(a[i], b[i], "%s[%d]" % (path, i))
            if d:
                return d
        return None
    if isinstance(a, dict) and isinstance(b, dict):
        for k in sorted(set(a) | set(b)):
            if k not in a or k not in b:
                return "%s.%s: present on one side only" % (path, k)
            d = _diff(a[k], b[k], "%s.%s" % (path, k))
            if d:
                return d
        return None
    if a != b:
        return "%s: expected %s, found %s" % (path, _json.dumps(a, ensure_ascii=False)[:100], _json.dumps(b, ensure_ascii=False)[:100])
    return None


def rule_F_SKELETON_ALL(ctx, floor=10, which=("enum", "lexical", "template")):
    ctx.rule("F-SKELETON-ALL", "emission skeleton of every function of the enum / lexical formatters and the shared templates (what is pushed to the "
             "output in which order: table fields, joins with their separators and the exact `index != 0` join condition, guards, rendered "
             "sub-items) equals the reviewed skeleton of that function (checks/tables/formatter_skeletons.json): the formatter-side counterpart "
             "of P-SKELETON")
    try:
        ref = _json.load(open(FMT_TABLE, encoding="utf-8"))["skeletons"]
    except OSError:
        from facts import AnchorMissing
        raise AnchorMissing("checks/tables/formatter_skeletons.json")
    got = {k: v for k, v in formatter_skeletons(ctx.facts).items() if k.split("::")[0] in which}
    ctx.floor("formatter functions with an emission skeleton", len(got), floor)
    for name, (sk, it) in sorted(got.items()):
        ctx.fn(it)
        r = ref.get(name)
        site = "%s:%s" % (it["span"]["file"], it["span"]["line"])
        if r is None:
            # a function added next to the reviewed ones is not evidence against the property (control: a new unrelated API); it is listed
            ctx.extra.setdefault("unreviewed_new_functions", []).append(name)
            continue
        if r["skeleton"] and isinstance(r["skeleton"][0], list) and r["skeleton"][0][:1] == ["unrecognised"]:
            # nothing was reviewed for this function (its emission could not be evaluated symbolically when the table was made): no reference
            ctx.extra.setdefault("functions_without_reviewed_skeleton", []).append(name)
            continue
        d = _diff(r["skeleton"], sk)
        ctx.ob("F-SKELETON-ALL", name, d is None, d or "", site)
    for name in sorted(n_ for n_ in set(ref) - set(got) if n_.split("::")[0] in which):
        # the function is gone (inlined into its callers / renamed).  Every remaining formatter is compared with its own reviewed skeleton, in
        # which sink-receiving callees are expanded, so a removed helper cannot hide a change of what is written
        ctx.extra.setdefault("reviewed_functions_removed", []).append(name)


if __name__ == "__main__":
    import sys
    sys.path[:0] = [_os.path.join(_os.path.dirname(_os.path.dirname(_os.path.abspath(__file__))), "lib")]
    import facts
    got = formatter_skeletons(facts.load())
    print(_json.dumps({"_doc": "Reviewed emission skeletons of the formatter functions; regenerate with `python3 checks/rules/emit.py > "
                               "checks/tables/formatter_skeletons.json` and REVIEW the diff.",
                       "skeletons": {k: {"skeleton": v[0]} for k, v in sorted(got.items())}}, ensure_ascii=False, indent=1))
