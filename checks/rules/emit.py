"""F-SKELETON: symbolic evaluation of string-emitting template/formatter functions (HIR) to a skeleton:
   list of  'sym'                       -- a pushed operand (parameter name / table field / expression label)
           ('join', items, [seps])      -- for (i,x) in items.enumerate(): if i != 0 {push seps}; push x
           ('joinlest', [a,b,c], sep)   -- nar_dev_utils::join_lest_multiple_separators (first item, then sep+item for non-empty items)
           ('flush', buffer, sep)       -- nar_dev_utils::add_space_if_necessary_and_flush_buffer (sep+buffer if buffer non-empty)
           ('ifnot', cond, [..])        -- emitted unless `cond` (early return / conditional)
           ('match', {variant: [..]})
Dependency helpers are summarised from the pinned nar_dev_utils source (deps.py asserts version+hash)."""
import hir, hirpp
from hir import strip, field_path, Unrecognised, callee, callee_name


def label(e, env):
    e = strip(e)
    while e["k"] == "AddrOf" or (e["k"] == "Unary" and e["op"] == "*"):
        e = strip(e["e"])
    p = field_path(e)
    if p:
        if p[0] in env:
            v = env[p[0]]
            if len(p) == 1:
                return v
            if isinstance(v, str):
                return ".".join((v,) + p[1:])
        if p[0] == "self":
            return ".".join(("fmt",) + p[1:])
        return ".".join(p)
    if e["k"] in ("MethodCall", "Call"):
        nm = callee_name(e)
        args = hir.call_args(e)
        inner = [label(a, env) for a in args if field_path(a) != ("self",)]
        return "%s(%s)" % (nm, ",".join(str(x) for x in inner))
    if e["k"] == "Block":
        # `catch_flow!(f; args)` = { let mut out = String::new(); f(&mut out, args); out }
        bufs = [s_["pat"]["name"] for s_ in e["stmts"] if s_["k"] == "Let" and s_["pat"]["k"] == "Binding" and s_.get("init") is not None
                and strip(s_["init"])["k"] == "Call" and (callee(strip(s_["init"])) or "").endswith("String::new")]
        calls = [strip(s_["expr"]) for s_ in e["stmts"] if s_["k"] in ("Semi", "Expr")]
        if len(bufs) == 1 and len(calls) == 1 and calls[0]["k"] in ("Call", "MethodCall") and e.get("expr") is not None and field_path(e["expr"]) == (bufs[0],):
            c = calls[0]
            args = [a for a in hir.call_args(c) if field_path(a) not in (("self",), (bufs[0],))]
            return "%s(%s)" % (callee_name(c), ",".join(str(label(a, env)) for a in args))
    if e["k"] == "Lit":
        return repr(e["lit"]["v"])
    return "<%s>" % e["k"]


class Emit:
    def __init__(self, facts, sink_names=("out", "s")):
        self.f = facts
        self.sinks = set(sink_names)

    def is_sink(self, e, env):
        p = field_path(e)
        return bool(p) and len(p) == 1 and env.get(p[0]) == "@sink"

    def fn(self, path, args, depth=0):
        it = self.f.hir.get(path)
        if it is None or depth > 5:
            raise Unrecognised("cannot inline %s" % path)
        env = {}
        for i, p in enumerate(it["params"]):
            if p["k"] == "Binding":
                if i < len(args):
                    env[p["name"]] = args[i]
                elif p["name"] in self.sinks:
                    env[p["name"]] = "@sink"
                elif p["name"] != "self":
                    env[p["name"]] = p["name"]
        return self.block(it["body"], env, depth, path)

    def block(self, e, env, depth, owner):
        e = strip(e)
        out = []
        if e["k"] != "Block":
            return self.stmt_expr(e, env, depth, owner)
        env = dict(env)
        for s in e["stmts"]:
            if s["k"] == "Let":
                if s["pat"]["k"] == "Binding" and s.get("init") is not None:
                    init = strip(s["init"])
                    if init["k"] == "Call" and (callee(init) or "").endswith("String::new"):
                        env[s["pat"]["name"]] = "@buffer:" + s["pat"]["name"]
                    else:
                        env[s["pat"]["name"]] = label(s["init"], env)
                continue
            if s["k"] == "Item":
                continue
            out += self.stmt_expr(s["expr"], env, depth, owner)
        if e.get("expr"):
            out += self.stmt_expr(e["expr"], env, depth, owner)
        return out

    def stmt_expr(self, x, env, depth, owner):
        x = strip(x)
        k = x["k"]
        if k == "Block":
            return self.block(x, env, depth, owner)
        if k == "MethodCall" and x["method"] == "push_str" and self.is_sink(x["recv"], env):
            return [label(x["args"][0], env)]
        if k == "MethodCall" and x["method"] == "push" and self.is_sink(x["recv"], env):
            return [label(x["args"][0], env)]
        if k == "If":
            c = strip(x["cond"])
            then = strip(x["then"])
            # `if cond { return; }`
            rets = [n for n in hir.walk(then) if n.get("k") == "Ret"]
            if rets and not x.get("else"):
                return [("unless", label(c, env))]
            body = self.block(then, env, depth, owner)
            els = self.block(x["else"], env, depth, owner) if x.get("else") else []
            return [("if", label(c, env), body, els)]
        if k == "Match" and "ForLoop" in x.get("source", ""):
            # for pat in iter { body }
            it = strip(x["scrut"])
            src = it["args"][0] if it["k"] == "Call" and it["args"] else it
            src_l = label(src, env)
            lp = x["arms"][0]["body"]
            inner = None
            for n in hir.walk(lp):
                if n.get("k") == "Match" and n is not x:
                    for a in n["arms"]:
                        if hir.pat_variants(a["pat"]) == {"Some"}:
                            inner = a
                    break
            if inner is None:
                raise Unrecognised("for loop shape", x)
            env = dict(env)
            # loop-bound variables get binder-independent labels
            def bind(p, names):
                if p["k"] == "Binding":
                    env[p["name"]] = names.pop(0) if names else "item"
                elif p["k"] in ("Tuple",):
                    for q in p["pats"]:
                        bind(q, names)
                elif p["k"] in ("TupleStruct",):
                    for q in p["pats"]:
                        bind(q, names)
                elif p["k"] == "Struct":
                    for fd in p["fields"]:
                        bind(fd["pat"], names)
                elif p["k"] in ("Ref", "Box", "Deref"):
                    bind(p["pat"], names)
            enumerated = "enumerate(" in src_l
            bind(inner["pat"], ["index", "item"] if enumerated else ["item"])
            body = self.block(inner["body"], env, depth, owner)
            # recognise the join idiom: [('if', 'i != 0', seps, []), item]
            if len(body) == 2 and isinstance(body[0], tuple) and body[0][0] == "if" and not body[0][3]:
                return [("join", src_l, body[0][2], body[1])]
            return [("loop", src_l, body)]
        if k == "Match":
            arms = {}
            for v, arm, pat in hir.arms_by_variant(x):
                env2 = dict(env)
                if pat["k"] == "Struct":
                    for fd in pat["fields"]:
                        q = fd["pat"]
                        while q["k"] in ("Ref", "Box", "Deref"):
                            q = q["pat"]
                        if q["k"] == "Binding":
                            env2[q["name"]] = fd["name"]      # binder-independent: the ADT's field name
                elif pat["k"] == "TupleStruct":
                    for i, q in enumerate(pat["pats"]):
                        while q["k"] in ("Ref", "Box", "Deref"):
                            q = q["pat"]
                        if q["k"] == "Binding":
                            env2[q["name"]] = "field%d" % i
                arms[v] = self.block(arm["body"], env2, depth, owner)
            return [("match", label(x["scrut"], env), arms)]
        if k in ("Call", "MethodCall"):
            nm = callee_name(x)
            args = hir.call_args(x)
            c = callee(x)
            if nm == "join_lest_multiple_separators" and self.is_sink(args[0], env):
                arr = [n for n in hir.walk(args[1]) if n.get("k") == "Array"]
                items = [label(a, env) for a in arr[0]["elems"]] if arr else [label(args[1], env)]
                return [("joinlest", items, label(args[2], env))]
            if nm == "join_to" and self.is_sink(args[0], env):
                return [("join", label(args[1], env), [label(args[2], env)], "item")]
            if nm == "add_space_if_necessary_and_flush_buffer" and self.is_sink(args[0], env):
                return [("flush", label(args[1], env), label(args[2], env))]
            # call of a local function that receives the sink (or a buffer): inline
            sink_pos = [i for i, a in enumerate(args) if self.is_sink(a, env) or (isinstance(label(a, env), str) and label(a, env).startswith("@buffer:"))]
            if c in self.f.hir and sink_pos:
                sub_args = []
                for i, a in enumerate(args):
                    if i in sink_pos and self.is_sink(a, env):
                        sub_args.append("@sink")
                    elif i in sink_pos:
                        sub_args.append("@sink")   # writing into a buffer that is flushed later
                    else:
                        sub_args.append(label(a, env))
                sub = self.fn(c, sub_args, depth + 1)
                tgt = label(args[sink_pos[0]], env)
                if isinstance(tgt, str) and tgt.startswith("@buffer:"):
                    return [("into", tgt, sub)]
                return sub
            return []
        if k == "Ret":
            return [("return",)]
        return []


def flat(sk):
    """flatten nested plain sequences for comparison/printing"""
    out = []
    for x in sk:
        out.append(x)
    return out
