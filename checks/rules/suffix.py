"""S-SUFFIX: the lexical parser cuts truth / stamp off the end of the input only when the input is a sentence.

`parse_items` peels truth, stamp and punctuation off the back of the environment.  In a format whose stamp / truth keywords
consist of identifier characters only (Han: 过去 现在 将来 发生在 真…值) a bare term may END in such a keyword (回到过去).  If the
term region's right border on the no-punctuation path is still the stamp/truth cut, the term is truncated and
MidParseResult::fold drops the cut-off items silently (defect D11), while the enum parser reads the whole name.

Decided in two halves:
  table half  -- which (format, keyword) pairs can end a well-formed atom name: all chars accepted by the identifier predicate;
  code half   -- symbolic evaluation of parse_items' `let` chain (HIR, shadowing resolved through HirIds): under the assumption
                 `segment_punctuation(..) = None` the end of the term slice must simplify to env.len() and the truth / stamp
                 fields of the MidParseResult literal to None.
A finding is reported per table instance only if the code half fails."""
import hir, tables
from hir import strip, Unrecognised
from facts import AnchorMissing


def _peel(e):
    e = strip(e)
    while e["k"] == "AddrOf" or (e["k"] == "Unary" and e.get("op") in ("*", "Deref")):
        e = strip(e["e"])
    return e


class Eval:
    def __init__(self, item):
        self.item = item
        self.env = {}          # hid -> value
        ps = item["params"]
        self.params = {}
        for i, p in enumerate(ps):
            if p["k"] == "Binding":
                self.env[p["hid"]] = ("param", p["name"])

    def val(self, e):
        e = _peel(e)
        k = e["k"]
        if k == "Path":
            p = e["path"]
            if p.get("res") == "local":
                if p["hid"] not in self.env:
                    raise Unrecognised("unbound local %s" % p["name"], e)
                return self.env[p["hid"]]
            v = hir.variant_of(p)
            if v == "None":
                return ("none",)
            return ("path", p.get("def") or p.get("text"))
        if k == "Lit":
            return ("lit", e["lit"]["v"])
        if k == "MethodCall":
            if e["method"] == "right_unwrap_or" and (e.get("def") or "").endswith("RightUnwrapOr::right_unwrap_or"):
                return ("ruo", self.val(e["recv"]), self.val(e["args"][0]))
            if e["method"] == "len" and (e.get("def") or "").endswith("::len"):
                return ("len", self.val(e["recv"]))
            return ("call", e["method"], tuple(self.val(a) for a in [e["recv"]] + e["args"]))
        if k == "Call":
            nm = hir.callee_name(e)
            if nm == "Some" and len(e["args"]) == 1:
                return ("some", self.val(e["args"][0]))
            return ("call", nm, tuple(self.val(a) for a in e["args"]))
        if k == "Tup":
            return ("tup",) + tuple(self.val(x) for x in e["elems"])
        if k == "Index":
            return ("slice", self.val(e["e"]), self.idx(e["idx"]))
        if k == "Match" and e.get("source") == "Normal":
            sc = self.val(e["scrut"])
            arms = {}
            for a in e["arms"]:
                if a.get("guard"):
                    raise Unrecognised("guarded arm", e)
                vs = hir.pat_variants(a["pat"])
                if vs == {"Some"}:
                    if hir.pat_bindings(a["pat"]):
                        raise Unrecognised("Some(binding) arm", e)
                    arms["some"] = self.val(a["body"])
                elif vs == {"None"}:
                    arms["none"] = self.val(a["body"])
                elif a["pat"]["k"] == "Wild":
                    arms.setdefault("some", self.val(a["body"]))
                    arms.setdefault("none", self.val(a["body"]))
                else:
                    raise Unrecognised("match arm pattern", e)
            if set(arms) != {"some", "none"}:
                raise Unrecognised("option match not exhaustive for the evaluator", e)
            return ("ifsome", sc, arms["some"], arms["none"])
        if k == "If":
            c = strip(e["cond"])
            if c["k"] == "MethodCall" and c["method"] in ("is_some", "is_none") and e.get("else"):
                sc = self.val(c["recv"])
                a, b = self.val(hir.last_expr(e["then"])), self.val(hir.last_expr(e["else"]))
                return ("ifsome", sc, a, b) if c["method"] == "is_some" else ("ifsome", sc, b, a)
            raise Unrecognised("if condition", e)
        if k == "Struct":
            return ("struct", hir.variant_of(e["path"]) or e["path"].get("text"), {f["name"]: self.val(f["expr"]) for f in e["fields"]})
        if k == "Block" and not e["stmts"] and e.get("expr"):
            return self.val(e["expr"])
        raise Unrecognised("expression kind %s" % k, e)

    def idx(self, e):
        e = _peel(e)
        if e["k"] == "Struct":
            return ("range", {f["name"]: self.val(f["expr"]) for f in e["fields"]})
        return self.val(e)

    def bind(self, pat, v):
        k = pat["k"]
        if k == "Binding":
            self.env[pat["hid"]] = v
        elif k == "Tuple":
            for i, q in enumerate(pat["pats"]):
                self.bind(q, ("proj", i, v))
        elif k == "Wild":
            pass
        else:
            raise Unrecognised("let pattern %s" % k, pat)


def simplify(v, none_calls):
    """rewrite under the assumption that every ('call', name, ..) with name in none_calls is None"""
    def s(v):
        if not isinstance(v, tuple):
            return v
        t = v[0]
        if t == "call" and v[1] in none_calls:
            return ("none",)
        if t == "ruo":
            o, d = s(v[1]), s(v[2])
            if o == ("none",):
                return ("tup", ("none",), d)
            return ("ruo", o, d)
        if t == "proj":
            b = s(v[2])
            if b[0] == "tup":
                return b[1 + v[1]]
            if b[0] == "ifsome":
                return s(("ifsome", b[1], ("proj", v[1], b[2]), ("proj", v[1], b[3])))
            return ("proj", v[1], b)
        if t == "ifsome":
            c = s(v[1])
            if c == ("none",):
                return s(v[3])
            if c[0] == "some":
                return s(v[2])
            return ("ifsome", c, s(v[2]), s(v[3]))
        if t == "tup":
            return ("tup",) + tuple(s(x) for x in v[1:])
        if t == "len":
            return ("len", s(v[1]))
        return v
    return s(v)


def show(v, depth=0):
    if not isinstance(v, tuple):
        return str(v)
    if depth > 4:
        return "…"
    t = v[0]
    if t == "param":
        return v[1]
    if t == "none":
        return "None"
    if t == "call":
        return "%s(%s)" % (v[1], ",".join(show(x, depth + 1) for x in v[2]))
    if t == "struct":
        return "%s{..}" % v[1]
    if t == "range":
        return "%s..%s" % (show(v[1].get("start", ""), depth + 1), show(v[1].get("end", ""), depth + 1))
    if t == "slice":
        return "%s[%s]" % (show(v[1], depth + 1), show(v[2], depth + 1))
    if t == "ruo":
        return "right_unwrap_or(%s,%s)" % (show(v[1], depth + 1), show(v[2], depth + 1))
    if t == "proj":
        return "%s.%d" % (show(v[2], depth), v[1])
    return "%s(%s)" % (t, ",".join(show(x, depth + 1) for x in v[1:]))


def code_half(ctx):
    """-> (ok, details) for parse_items"""
    f = ctx.facts
    its = [it for p, it in f.hir.items() if it["name"] == "parse_items" and "impl_lexical::parser" in p]
    if len(its) != 1:
        raise AnchorMissing("lexical ParseState::parse_items")
    it = its[0]
    ctx.fn(it)
    ev = Eval(it)
    body = strip(it["body"])
    envp = [p for p in it["params"] if p["k"] == "Binding" and p["name"] != "self"]
    if len(envp) != 1:
        raise Unrecognised("parse_items parameters")
    env_param = ("param", envp[0]["name"])
    term_slice = None
    for s in body["stmts"]:
        if s["k"] != "Let" or s.get("init") is None:
            continue
        init = _peel(s["init"])
        if init["k"] == "Index" and ev.val(init["e"]) == env_param and term_slice is None and _peel(init["idx"])["k"] == "Struct" \
                and {x["name"] for x in _peel(init["idx"])["fields"]} == {"start", "end"}:
            term_slice = ev.idx(init["idx"])[1]
        try:
            v = ev.val(s["init"])
        except Unrecognised:
            v = ("opaque", s["line"])
        ev.bind(s["pat"], v)
    if term_slice is None:
        raise Unrecognised("parse_items: the term region slice env[begin..end] was not found")
    # the MidParseResult literal
    lits = [n for n in hir.walk(body) if n.get("k") == "Struct" and (n["path"].get("text") or "").endswith("MidParseResult")]
    if len(lits) != 1:
        raise Unrecognised("parse_items: MidParseResult literal")
    fields = {x["name"]: ev.val(x["expr"]) for x in lits[0]["fields"]}
    none = {"segment_punctuation"}
    end = simplify(term_slice["end"], none)
    tr = simplify(fields.get("truth"), none)
    st = simplify(fields.get("stamp"), none)
    pu = simplify(fields.get("punctuation"), none)
    if pu != ("none",):
        raise Unrecognised("parse_items: the punctuation field does not come from segment_punctuation (%s)" % show(pu))
    ok_end = end == ("len", env_param)
    ok_t = tr == ("none",)
    ok_s = st == ("none",)
    return ok_end and ok_t and ok_s, {"term_region_end_without_punctuation": show(end), "truth_without_punctuation": show(tr),
                                      "stamp_without_punctuation": show(st)}


def table_half(ctx, T):
    """(format, description) of suffix keywords an atom name may end in"""
    out = []
    for name in T.names:
        l = T.l_roles(name)
        p = tables.char_pred(ctx.facts, l["fn"]["is_identifier"])

        def ident(s):
            r = [tables.pred_accepts(p, c) for c in s]
            if any(x is None for x in r):
                raise Unrecognised("identifier predicate undecidable on %r" % s)
            return all(r)
        for a, b in sorted(tuple(x) for x in l["stamp_pairs"]):
            kw = a + b
            if kw and ident(kw):
                out.append((name, "stamp form %r" % kw))
        tb = l["single"]["sentence.truth_brackets"]
        if tb[0] and tb[1] and ident(tb[0] + tb[1]):
            out.append((name, "truth brackets %r…%r" % (tb[0], tb[1])))
    return out


def rule_S_SUFFIX(ctx, T):
    ctx.rule("S-SUFFIX", "truth / stamp are cut off the end of the input only for a sentence: under `segment_punctuation = None` the term region of "
             "lexical parse_items ends at env.len() and the truth / stamp fields of the intermediate result are None (symbolic evaluation of "
             "the let chain); instances = stamp / truth keywords of a lexical table made of identifier characters only, i.e. possible name endings")
    try:
        inst = table_half(ctx, T)
        ok, det = code_half(ctx)
    except Unrecognised as u:
        ctx.unrecognised("S-SUFFIX", "lexical parse_items", u.what)
        return
    ctx.sample({"rule": "S-SUFFIX", "instances": ["%s %s" % x for x in inst], "parse_items": det})
    ctx.ob("S-SUFFIX", "parse_items gives cut-off truth/stamp back to the term when there is no punctuation", ok or not inst, "%s" % det)
    for name, what in inst:
        ctx.ob("S-SUFFIX", "lexical %s %s can end a bare term" % (name, what), ok,
               "a bare term whose name ends in this keyword is truncated (the suffix is cut off and then dropped): %s" % det)
