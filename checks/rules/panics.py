"""P-* rules: inventory of panic edges in MIR and their discharge."""
import mir

PANIC_FNS = ("core::panicking::", "std::rt::begin_panic", "std::rt::panic", "std::panicking::", "core::option::unwrap_failed",
             "core::option::expect_failed", "core::result::unwrap_failed", "std::process::abort", "std::process::exit",
             "core::slice::index::slice_", "core::str::slice_error_fail")
# std / dependency APIs that may panic (callee def path or resolved path, matched by suffix of the item path)
MAY_PANIC = {
    "std::option::Option::<T>::unwrap": "None",
    "std::option::Option::<T>::expect": "None",
    "std::result::Result::<T, E>::unwrap": "Err",
    "std::result::Result::<T, E>::expect": "Err",
    "std::result::Result::<T, E>::unwrap_err": "Ok",
    "std::result::Result::<T, E>::expect_err": "Ok",
    "std::option::Option::<T>::unwrap_unchecked": "None (UB)",
    "std::result::Result::<T, E>::unwrap_unchecked": "Err (UB)",
    "std::ops::Index::index": "index out of bounds / bad range",
    "std::ops::IndexMut::index_mut": "index out of bounds / bad range",
    "std::vec::Vec::<T, A>::remove": "index >= len",
    "std::vec::Vec::<T, A>::insert": "index > len",
    "std::vec::Vec::<T, A>::swap_remove": "index >= len",
    "std::vec::Vec::<T, A>::drain": "bad range",
    "std::vec::Vec::<T, A>::split_off": "at > len",
    "std::vec::Vec::<T, A>::truncate": None,
    "core::slice::<impl [T]>::split_at": "mid > len",
    "core::slice::<impl [T]>::copy_from_slice": "length mismatch",
    "core::str::<impl str>::split_at": "not on a char boundary",
    "std::string::String::remove": "bad index",
    "std::string::String::insert": "bad index",
    "std::string::String::insert_str": "bad index",
    "std::string::String::truncate": "not on a char boundary",
    "std::string::String::drain": "bad range",
    "std::string::String::replace_range": "bad range",
    "nar_dev_utils::ZeroOneFloat::validate_01": "value outside [0,1]",
    "core::num::<impl usize>::pow": "overflow",
    "std::iter::Iterator::step_by": "step == 0",
    "std::iter::Iterator::sum": "integer overflow in debug builds (std's Sum for integers uses `+`)",
    "std::iter::Iterator::product": "integer overflow in debug builds",
    "core::slice::<impl [T]>::chunks": "size == 0",
    "core::slice::<impl [T]>::windows": "size == 0",
    "std::cell::RefCell::<T>::borrow_mut": "already borrowed",
    "std::cell::RefCell::<T>::borrow": "already mutably borrowed",
}
BENIGN_ASSERTS = ("MisalignedPointerDereference", "NullPointerDereference", "InvalidEnumConstruction")


def panic_sites(body, local_panickers=()):
    """[(kind, detail, block index, terminator)] for one MIR body (normal blocks only)"""
    g = mir.cfg(body)
    out = []
    for bi in sorted(g.reach):
        bl = body["blocks"][bi]
        if bl["cleanup"]:
            continue
        t = bl["term"]
        if t["k"] == "Assert":
            kind = t["msg"]["k"]
            if kind in BENIGN_ASSERTS:
                continue
            d = kind
            if kind == "Overflow":
                d = "Overflow(%s)" % t["msg"]["op"]
                # the P-ADD axiom (lengths and cursors stay below isize::MAX) speaks about usize arithmetic only: an overflow check on
                # any other integer type (seed c04-p: `sum += hasher.finish()` on u64 hash values) is an ordinary panic edge
                cl_ = (t.get("cond") or {}).get("place", {}).get("local")
                cty = body["locals"][cl_]["ty"] if cl_ is not None and cl_ < len(body["locals"]) else "?"
                if not cty.replace(" ", "").startswith("(usize,"):
                    d = "Overflow(%s:%s)" % (t["msg"]["op"], cty.strip("()").split(",")[0].strip())
            out.append(("assert", d, bi, t))
        elif t["k"] == "Call":
            fn = mir.callee_fn(t)
            if fn is None:
                out.append(("indirect-call", "fn pointer / closure object", bi, t)) if False else None
                continue
            paths = [fn.get("resolved") or "", fn.get("def") or ""]
            hit = None
            for p in paths:
                if any(p.startswith(x) for x in PANIC_FNS):
                    hit = ("panic", p.rsplit("::", 1)[-1])
                    break
            if hit is None:
                for p in paths:
                    if p in MAY_PANIC and MAY_PANIC[p] is not None:
                        hit = ("may-panic", p)
                        break
            if hit is None and t.get("target") is None and not any(p.startswith("std::process") for p in paths):
                # diverging call (`-> !`): a panic helper of some kind
                hit = ("diverges", paths[1])
            if hit is None and paths[0] in local_panickers:
                hit = ("calls-panicker", paths[0])
            if hit:
                out.append((hit[0], hit[1], bi, t))
    return out


def inventory(facts, reach):
    inv = {}
    for p in sorted(reach):
        b = facts.mir.get(p)
        if b is None:
            continue
        s = panic_sites(b)
        if s:
            inv[p] = s
    return inv


def site_keys(facts, inv):
    """stable keys: function name, kind, detail, ordinal of that (kind,detail) within the function"""
    keys = []
    for p, sites in inv.items():
        b = facts.mir[p]
        name = fname(b, p)
        cnt = {}
        for kind, detail, bi, t in sites:
            k = (kind, detail)
            cnt[k] = cnt.get(k, 0) + 1
            keys.append(("%s | %s %s #%d" % (name, kind, short(detail), cnt[k]), p, bi, t))
    return keys


def short(d):
    d = d.replace("std::", "").replace("core::", "")
    return d


def fname(b, p):
    if b["defkind"] == "Closure":
        par = p.rsplit("::", 1)[0]
        return par.rsplit("::", 1)[-1] + "::closure"
    imp = b.get("impl") or {}
    if imp.get("trait"):
        return "<%s as %s>::%s" % (imp["self_ty"].rsplit("::", 1)[-1], imp["trait"].rsplit("::", 1)[-1], b["name"])
    if imp.get("self_ty"):
        return "%s::%s" % (imp["self_ty"].split("<")[0].rsplit("::", 1)[-1], b["name"])
    return b["name"]


# ============================================================================
# rule drivers
import json, os
import guards as G
import pscope
from facts import AnchorMissing, VERIF

ENUM_STATE = "conversion::string::impl_enum::parser::ParseState"
TABLE = os.path.join(VERIF, "checks", "tables", "panic_sites.json")


def load_table():
    try:
        return json.load(open(TABLE, encoding="utf-8"))["sites"]
    except OSError:
        raise AnchorMissing("reviewed panic-site table missing")


def scope_reach(ctx, scopes):
    f = ctx.facts
    cg = mir.callgraph(f)
    roots = []
    for s in scopes:
        r = pscope.roots(f, s)
        ctx.floor("entry points of scope %s" % s, len(r), 1)
        roots += r
    imp = pscope.implicit_roots(f)
    ctx.extra["implicit_trait_roots"] = len(imp)
    return cg.reachable(roots + imp), roots


# about three quarters of the functions reachable on the pinned tree, per scope list
FLOOR_REACH = {("enum_parser",): 200, ("lexical_parser", "fold"): 235, ("enum_formatter", "typst"): 170, ("typst",): 170}


def rule_P_TABLE(ctx, scopes, floor_sites):
    """P-INV + P-TABLE + P-GUARD over the functions reachable from the scopes' entry points"""
    ctx.rule("P-INV", "inventory of every panic edge (MIR Assert terminators, calls into core::panicking / std::rt, diverging calls, listed "
             "may-panic std/dep APIs) in every function reachable from the entry points over the call graph (CHA for unresolved trait calls)")
    ctx.rule("P-ADD", "usize `+` overflow asserts are discharged by the axiom `lengths and cursors <= isize::MAX` and only counted")
    ctx.rule("P-TABLE", "every other inventoried site must match an entry of the reviewed table checks/tables/panic_sites.json keyed by "
             "(function, kind/callee, ordinal) -- never by line; an unlisted site is a new panic edge")
    ctx.rule("P-GUARD", "per site: the operand expressions equal the reviewed ones and every reviewed dominating guard is still forced on "
             "the way to the site with no redefinition of its loop-carried operands in between (extra guards are accepted)")
    f = ctx.facts
    table = load_table()
    reach, roots = scope_reach(ctx, scopes)
    inv = inventory(f, reach)
    n_add = 0
    n_sites = 0
    import blen
    blen_sites, _posts = blen.proofs(f)
    all_sites = list(site_keys(f, inv))
    renumbered = _renumbering(f, table, all_sites)
    for key, p, bi, t in all_sites:
        b = f.mir[p]
        ctx.fn(b)
        site = "%s:%s" % (b["span"]["file"], t["line"])
        if "| assert Overflow(Add)" in key:
            n_add += 1
            continue
        n_sites += 1
        ent = table.get(key)
        # a slice site `env[a..]` / `env[..b]` whose bound B-LEN PROVES on the current code is discharged by that proof: no reviewed reference
        # is needed (and none can go stale when the code around it is restructured)
        # ... but only where the reference cannot be expected to match: in a function that contains spliced helper code (lib/inline.py).
        # Elsewhere the reviewed operands stay binding -- they also pin WHICH value a border is computed from, and a wrong-but-in-range
        # border is a correctness defect that B-LEN's range proof does not see (automut regression run: three such mutants)
        pr = blen_sites.get((p, bi))
        spliced = any(bl.get("inlined") for bl in b["blocks"])
        proved = spliced and bool(pr) and pr[0] and pr[1] in ("from", "to") and "ops::Index::index" in key
        if ent is None:
            if proved:
                ctx.ob("P-GUARD", key + " (proved by B-LEN)", True, "", site)
                continue
            ctx.ob("P-TABLE", key, False, "new panic edge: not in the reviewed table", site)
            continue
        sym = G.Sym(b)
        ops = G.site_operands(sym, t) if ("| panic " not in key and "| diverges " not in key) else {}
        live = set("%s = %s" % (e, v) for e, v in sym.live_guards(bi))
        ok_ops = ops == ent["ops"]
        if not ok_ops and ent.get("ignore_alt_guards"):
            # reviewed: every alternative of the multi-definition operand is safe on its own, so the branch conditions that select them
            # (spelled differently by `match` / `if` / `is_none()`) are not part of the reference
            ok_ops = strip_alt_guards(ops) == strip_alt_guards(ent["ops"])
        missing = [g for g in ent["need"] if g not in live]
        for bd in ent.get("bounds", []):
            if lower_bound(live, bd["expr"]) < bd["min"]:
                missing.append("%s >= %d" % (bd["expr"], bd["min"]))
        if proved and not (ok_ops and not missing):
            ctx.ob("P-GUARD", key + " (proved by B-LEN)", True, "", site)
            continue
        if not (ok_ops and not missing) and key in renumbered:
            # the ordinal of a site follows the block order, which a restructured loop changes.  `renumbered` is a ONE-TO-ONE assignment of
            # ALL sites of this function and kind to its reviewed entries under which every site has exactly the operands and guards of its
            # entry (a permutation of the numbering) -- a site cannot borrow the weaker requirement of a sibling that is still in use
            ok_ops, missing = True, []
        ctx.ob("P-GUARD", key, ok_ops and not missing,
               ("operands changed: %s (reviewed: %s)" % (json.dumps(ops, ensure_ascii=False), json.dumps(ent["ops"], ensure_ascii=False)) if not ok_ops else "")
               + (" reviewed guard no longer forced: %s" % missing if missing else ""), site)
        ctx.sample({"rule": "P-GUARD", "site": key, "guards": ent["need"][:2], "why": ent["why"]})
    ctx.extra["usize_add_overflow_sites_discharged_by_axiom"] = n_add
    ctx.extra["reachable_functions"] = len(reach)
    # vacuity guard.  Fewer panic sites than reviewed is not a finding by itself (a rewrite that removes index operations makes the inventory
    # smaller: control rf22-7); an inventory that finds NOTHING, or a scope that no longer reaches its functions, is -- the recognisers
    # themselves are exercised by the canary crate on every run
    ctx.extra.setdefault("instance_counts", {})["panic sites inventoried"] = n_sites
    ctx.extra.setdefault("instance_counts", {})["panic sites reviewed for this scope (floor)"] = floor_sites
    ctx.floor("panic sites inventoried", n_sites, 1)
    ctx.floor("functions reachable from the scope's entry points", len(reach), FLOOR_REACH.get(tuple(scopes), 1))
    # external callees assumed total
    cg = mir.callgraph(f)
    ext = set()
    for p in reach:
        ext |= cg.ext.get(p, set())
    ctx.extra["external_callees_assumed_total"] = sorted(x for x in ext if x not in MAY_PANIC and not any(x.startswith(y) for y in PANIC_FNS))[:200]
    return reach


def _renumbering(f, table, all_sites):
    """{site key: entry key} for the groups (function, kind) in which some site does not match the entry of its own number but a one-to-one
    assignment of all the group's sites to the group's entries exists with every pair matching exactly (operands equal, reviewed guards and
    bounds forced)"""
    groups = {}
    for key, p, bi, t in all_sites:
        if "| assert Overflow(Add)" in key:
            continue
        groups.setdefault(key.rsplit(" #", 1)[0], []).append((key, p, bi, t))
    out = {}
    syms = {}
    for stem, sites in groups.items():
        ents = {k: e for k, e in table.items() if k.rsplit(" #", 1)[0] == stem}
        if not ents or len(sites) != len(ents) or len(sites) > 8:          # a PERMUTATION of the numbering: no site may appear or vanish
            continue
        facts_ = []
        for key, p, bi, t in sites:
            b = f.mir[p]
            sym = syms.setdefault(p, G.Sym(b))
            ops = G.site_operands(sym, t) if ("| panic " not in key and "| diverges " not in key) else {}
            live = set("%s = %s" % (e, v) for e, v in sym.live_guards(bi))
            facts_.append((key, ops, live))

        def fits(ops, live, e):
            return e["ops"] == ops and all(g in live for g in e["need"]) and all(lower_bound(live, bd["expr"]) >= bd["min"] for bd in e.get("bounds", []))
        if all(k in ents and fits(o, l, ents[k]) for k, o, l in facts_):
            continue
        cand = [[ek for ek, e in ents.items() if fits(o, l, e)] for k, o, l in facts_]

        def assign(i, used):
            if i == len(facts_):
                return {}
            for ek in cand[i]:
                if ek not in used:
                    r = assign(i + 1, used | {ek})
                    if r is not None:
                        r[facts_[i][0]] = ek
                        return r
            return None
        r = assign(0, frozenset())
        if r:
            out.update(r)
    return out


def strip_alt_guards(x):
    """drop the `[guard;guard]` annotations of φ alternatives (balanced brackets; `[<digits>]` constant indices are kept)"""
    if isinstance(x, dict):
        return {k: strip_alt_guards(v) for k, v in x.items()}
    if isinstance(x, list):
        return [strip_alt_guards(v) for v in x]
    if not isinstance(x, str):
        return x
    out, i, n = [], 0, len(x)
    while i < n:
        if x[i] == "[":
            j, depth = i, 0
            while j < n:
                if x[j] == "[":
                    depth += 1
                elif x[j] == "]":
                    depth -= 1
                    if depth == 0:
                        break
                j += 1
            body = x[i + 1:j]
            if body.isdigit():
                out.append(x[i:j + 1])
            i = j + 1
            continue
        out.append(x[i])
        i += 1
    return "".join(out)


def lower_bound(live, expr):
    """largest lower bound on `expr` implied by one of the forced guards"""
    import re
    lb = 0
    for g_ in live:
        m = re.match(r"^(Ne|Eq|Lt|Le|Ge|Gt)\((.*),(\d+)\) = (true|false)$", g_)
        if m and m.group(2) == expr:
            op, c, val = m.group(1), int(m.group(3)), m.group(4) == "true"
            b = None
            if (op == "Ne" and not val) or (op == "Eq" and val):
                b = c
            elif op == "Lt" and not val:
                b = c
            elif op == "Le" and not val:
                b = c + 1
            elif op == "Ge" and val:
                b = c
            elif op == "Gt" and val:
                b = c + 1
            if b is not None:
                lb = max(lb, b)
        m = re.match(r"^is_empty\((.*)\) = false$", g_)
        if m and expr == "len(%s)" % m.group(1):
            lb = max(lb, 1)
    return lb


def writes_head(ctx):
    """local functions that (transitively) write ParseState.head through a &mut ParseState argument"""
    import c08
    f = ctx.facts
    cg = mir.callgraph(f)
    direct = set()
    for p, b in f.mir.items():
        if "impl_enum::parser" in p and "head" in c08.self_field_writes(b, ENUM_STATE):
            direct.add(p)
    W = set(direct)
    changed = True
    while changed:
        changed = False
        for p, b in f.mir.items():
            if p in W or "impl_enum::parser" not in p:
                continue
            if any(c in W for c in cg.edges.get(p, ())):
                # only if the state is passed on mutably
                W.add(p)
                changed = True
    return W


def rule_P_CURSOR(ctx):
    ctx.rule("P-CURSOR", "every call of head_char / is_copula_starts_at_head(self.head) is dominated by the true edge of can_consume() "
             "(head < len_env) with no cursor-moving call on any path in between")
    f = ctx.facts
    W = writes_head(ctx)
    n = 0
    for p, b in f.mir.items():
        if "impl_enum::parser" not in p:
            continue
        g = mir.cfg(b)
        for nm in ("head_char", "is_copula_starts_at_head"):
            for bi, t in g.calls(nm):
                n += 1
                ok, why = False, "no dominating can_consume()"
                for ci, ct in g.calls("can_consume"):
                    br = g.bool_branch(ci)
                    if not br:
                        continue
                    T = br[0]
                    sw = g.last_switch_block
                    if not (T == bi or g.dominates(T, bi)):
                        continue
                    between = g.reachable_from(T, avoid=(ci,))
                    between = set(x for x in between if x != bi and bi in g.reachable_from(x, avoid=(ci,)))
                    movers = []
                    for x in sorted(between):
                        tt = b["blocks"][x]["term"]
                        if tt["k"] == "Call" and (mir.callee_path(tt) in W):
                            movers.append("%s at line %s" % (mir.callee_name(tt), tt["line"]))
                    if movers:
                        why = "cursor moved between the test and the read: %s" % movers
                        continue
                    ok = True
                    break
                if ok and nm == "is_copula_starts_at_head":
                    r, pth = g.resolve_operand(t["args"][1])
                    ok = r[0] == "arg" and pth == ["head"]
                    why = "start argument is not self.head"
                ctx.ob("P-CURSOR", "%s calls %s #%d" % (fname(b, p), nm, sum(1 for x, _ in g.calls(nm) if x <= bi)), ok, why, "%s:%s" % (b["span"]["file"], t["line"]))
    ctx.floor("cursor read sites", n, 8)


def rule_P_COUPLE(ctx):
    ctx.rule("P-COUPLE", "len_env is assigned only from env.len() of the value just assigned to env, and only from_env / reset_to write env or len_env")
    f = ctx.facts
    import c08
    writers = {}
    for p, b in f.mir.items():
        if "impl_enum::parser" not in p:
            continue
        w = c08.self_field_writes(b, ENUM_STATE) & {"env", "len_env"}
        if w:
            writers[b["name"]] = (w, b)
    ctx.ob("P-COUPLE", "writers of env/len_env", set(writers) <= {"reset_to"}, "written by %s" % sorted(writers))
    if "reset_to" in writers:
        b = writers["reset_to"][1]
        g = mir.cfg(b)
        env_st, len_st = None, None
        for bi in sorted(g.reach):
            if b["blocks"][bi]["cleanup"]:
                continue
            for s in b["blocks"][bi]["stmts"]:
                if s["k"] == "Assign" and s["place"]["proj"]:
                    r, pth = g.resolve_place(s["place"])
                    if r == ("arg", 1) and pth == ["env"]:
                        env_st = bi
                    if r == ("arg", 1) and pth == ["len_env"]:
                        len_st = (bi, s["rv"])
        ok = env_st is not None and len_st is not None and g.dominates(env_st, len_st[0])
        if ok:
            src = g.resolve_operand(len_st[1]["op"]) if len_st[1]["k"] == "Use" else None
            ok = src is not None and src[0][0] == "call" and mir.callee_name(src[0][1]) == "len"
            if ok:
                r2, p2 = g.resolve_operand(src[0][1]["args"][0])
                ok = r2 == ("arg", 1) and p2 == ["env"]
        ctx.ob("P-COUPLE", "reset_to: len_env := self.env.len() after env is replaced", ok, "")


def rule_P_CALLER(ctx):
    ctx.rule("P-CALLER", "form_term / form_sentence / form_task unwrap the slots they take; every external call site is dominated by "
             "discriminant tests `Some` on exactly the slots the callee (transitively) unwraps")
    f = ctx.facts
    req = {}
    bodies = {}
    for nm in ("form_term", "form_sentence", "form_task"):
        b = f.mir_fn(nm, module="impl_enum::parser")
        bodies[nm] = b
        g = mir.cfg(b)
        slots = set()
        for bi, t in g.calls("unwrap"):
            r, pth = g.resolve_operand(t["args"][0])
            if r[0] == "call" and mir.callee_name(r[1]) == "take":
                r2, p2 = g.resolve_operand(r[1]["args"][0])
                if p2 and p2[0] == "mid_result":
                    slots.add(p2[-1])
        req[nm] = slots
    for nm in ("form_sentence", "form_task"):
        g = mir.cfg(bodies[nm])
        for sub in ("form_term", "form_sentence"):
            if g.calls(sub):
                req[nm] |= req[sub]
    ctx.extra["form_requirements"] = {k: sorted(v) for k, v in req.items()}
    tm = f.mir_fn("transform_mid_result", module="impl_enum::parser")
    g = mir.cfg(tm)
    sym = G.Sym(tm)
    n = 0
    for nm in req:
        for bi, t in g.calls(nm):
            n += 1
            have = set()
            for e, v in sym.guards(bi):
                if e.startswith("discr(a1.mid_result.") and v == "1":
                    have.add(e[len("discr(a1.mid_result."):-1])
                # the same test spelled as a (possibly cached) `slot.is_some()` / `!slot.is_none()`
                if e.startswith("is_some(a1.mid_result.") and v == "true":
                    have.add(e[len("is_some(a1.mid_result."):-1])
                if e.startswith("is_none(a1.mid_result.") and v == "false":
                    have.add(e[len("is_none(a1.mid_result."):-1])
            ctx.ob("P-CALLER", "transform_mid_result -> %s" % nm, req[nm] <= have, "callee unwraps %s, caller established Some for %s" % (sorted(req[nm]), sorted(have)),
                   "%s:%s" % (tm["span"]["file"], t["line"]))
    # no other callers
    others = []
    for p, b in f.mir.items():
        if b["name"] in req or b["name"] == "transform_mid_result":
            continue
        for nm in req:
            if mir.cfg(b).calls(nm) and "impl_enum::parser" in p:
                others.append("%s->%s" % (b["name"], nm))
    ctx.ob("P-CALLER", "form_* called only from transform_mid_result and each other", not others, "%s" % others)
    ctx.floor("form_* call sites", n, 3)


def _callers(f, path):
    if not hasattr(f, "_callers_idx"):
        idx = {}
        for q, qb in f.mir.items():
            qg = mir.cfg(qb)
            for ci, ct in qg.calls():
                cp = mir.callee_path(ct)
                if cp:
                    idx.setdefault(cp, []).append((q, qb, qg, ci, ct))
        f._callers_idx = idx
    return f._callers_idx.get(path, [])


def _project(g, op, proj, depth):
    """leaves [(block, operand)] of `op.proj` where op is built from aggregates: follows whole-local copies and ALL definitions of a local;
    a definition that is an aggregate of another variant than the projection asks for, or the result of from_residual (the Break path), cannot
    be the value read there and contributes nothing ([] = no definition can be read that way); anything unreadable -> None (nothing proven)"""
    if depth > 8 or op["k"] not in ("Copy", "Move"):
        return None
    pl = op["place"]
    if [e for e in pl["proj"] if e["k"] != "Deref"]:
        return None
    ds = g.defs.get(pl["local"], [])
    if not ds or 1 <= pl["local"] <= g.body["arg_count"]:
        return None
    out = []
    for dbi, si, rv in ds:
        if dbi not in g.reach:
            continue
        k = rv["k"]
        if k == "CallResult":
            if mir.callee_name(rv["term"]) == "from_residual" and proj[0] == "@Ok":
                continue
            return None
        if k == "Use" and rv["op"]["k"] in ("Copy", "Move"):
            sub = _project(g, rv["op"], proj, depth + 1)
            if sub is None:
                return None
            out += sub
            continue
        if k == "Aggregate" and rv.get("agg") == "Adt" and proj and proj[0].startswith("@") and len(proj) >= 2:
            if "@" + rv["variant"] != proj[0]:
                continue
            names = rv.get("field_names") or []
            if proj[1] not in names:
                return None
            o2 = rv["ops"][names.index(proj[1])]
            if len(proj) == 2:
                out.append((dbi, o2))
            else:
                sub = _project(g, o2, proj[2:], depth + 1)
                if sub is None:
                    return None
                out += sub
            continue
        return None
    return out


def _arg_validated(f, p, b, g, bi, a, depth):
    """operand `a` at block `bi` of body `b` is known to be in [0,1]: (a) is_in_01 succeeded on it on a dominating edge, (b) it is the
    Continue payload of try_validate_01(..)?, or (c) it is a parameter of a non-public function and EVERY call of that function in the
    crate passes a validated value (a private helper that only forwards: the obligation moves to its callers; depth <= 3)"""
    want = g.path_s(a)
    r, pth = g.resolve_operand(a)
    cur = r
    if cur[0] == "call" and mir.callee_name(cur[1]) == "branch":
        inner = g.resolve_operand(cur[1]["args"][0])[0]
        if inner[0] == "call" and mir.callee_name(inner[1]) == "try_validate_01":
            return True
    for ci, ct in g.calls("is_in_01"):
        if g.path_s(ct["args"][0]) != want:
            continue
        br = g.bool_branch(ci)
        if br and (br[0] == bi or g.dominates(br[0], bi)):
            return True
    # (d) the value is a projection of a local that is built as an aggregate on several paths (the return place of a spliced helper:
    # `match next_valid(..)? { Some(p) => p, .. }` reads `branch(_r)@Continue.0.@Some.0` with `_r = Ok(Some(x))` | `Ok(None)` | from_residual(..)):
    # every definition that can have that shape must carry a validated value there, and at least one does
    if cur[0] == "call" and mir.callee_name(cur[1]) == "branch" and pth[:2] == ["@Continue", "0"] and depth < 3:
        leaves = _project(g, cur[1]["args"][0], ["@Ok", "0"] + pth[2:], 0)
        if leaves and all(_arg_validated(f, p, b, g, lb, lo, depth + 1) for lb, lo in leaves):
            return True
    if r[0] == "arg" and not pth and depth < 3 and "Public" not in str(b.get("vis")):
        cs = _callers(f, p)
        if cs and all(len(ct["args"]) >= r[1] and _arg_validated(f, q, qb, qg, ci, ct["args"][r[1] - 1], depth + 1) for q, qb, qg, ci, ct in cs):
            return True
    return False


def rule_P_VALID(ctx, reach, floor=6):
    ctx.rule("P-VALID", "every f64 argument of a panicking Truth/Budget::new_* call flows from a value on which is_in_01 succeeded on a "
             "dominating edge, or is the Continue payload of try_validate_01(..)?")
    f = ctx.facts
    n = 0
    for p in sorted(reach):
        b = f.mir.get(p)
        if not b:
            continue
        g = mir.cfg(b)
        for bi, t in g.calls():
            cal = mir.callee_path(t) or ""
            if not (cal.startswith("enum_narsese::sentence::truth::Truth::new_") or cal.startswith("enum_narsese::task::budget::Budget::new_")):
                continue
            if cal.endswith("new_empty"):
                continue
            for ai, a in enumerate(t["args"]):
                n += 1
                want = g.path_s(a)
                ok = _arg_validated(f, p, b, g, bi, a, 0)
                ctx.ob("P-VALID", "%s -> %s arg %d" % (fname(b, p), cal.rsplit("::", 2)[-2] + "::" + cal.rsplit("::", 1)[-1], ai), ok,
                       "argument %s is not range-checked on a dominating edge" % want, "%s:%s" % (b["span"]["file"], t["line"]))
    ctx.floor("validated constructor arguments", n, floor)


# ----------------------------------------------------------------------------
# returned borders of the lexical segmenters
def border_sites(f):
    """aggregates (tuple / Ok / Err / Some) carrying a usize in lexical-parser functions whose return type mentions usize:
    these are the borders callers slice with; their expressions and guards are part of the reviewed reference"""
    out = []
    for p, b in sorted(f.mir.items()):
        if "impl_lexical::parser" not in p or "usize" not in b["locals"][0]["ty"]:
            continue
        g = mir.cfg(b)
        sym = G.Sym(b)
        cnt = {}
        for bi in sorted(g.reach):
            if b["blocks"][bi]["cleanup"]:
                continue
            for st in b["blocks"][bi]["stmts"]:
                if st["k"] == "Assign" and st["place"]["local"] == 0 and not st["place"]["proj"] and b["locals"][0]["ty"] == "usize" and st["rv"]["k"] == "Use":
                    cnt["value"] = cnt.get("value", 0) + 1
                    key = "%s | returns value #%d" % (fname(b, p), cnt["value"])
                    out.append((key, b, bi, st, [sym.operand(st["rv"]["op"])], ["%s = %s" % x for x in sym.live_guards(bi)]))
                    continue
                if st["k"] != "Assign" or st["rv"]["k"] != "Aggregate":
                    continue
                rv = st["rv"]
                label = rv.get("agg")
                if label == "Adt":
                    if rv["adt"].rsplit("::", 1)[-1].startswith("Range"):
                        continue
                    label = rv["variant"]
                elif label != "Tuple":
                    continue
                us = [o for o in rv["ops"] if o["k"] in ("Copy", "Move") and b["locals"][o["place"]["local"]]["ty"] == "usize" and not o["place"]["proj"]]
                if not us:
                    continue
                cnt[label] = cnt.get(label, 0) + 1
                key = "%s | returns %s #%d" % (fname(b, p), label, cnt[label])
                out.append((key, b, bi, st, [sym.operand(o) for o in us], ["%s = %s" % x for x in sym.live_guards(bi)]))
    return out


def rule_R_BORDER(ctx, floor=10):
    ctx.rule("R-BORDER", "every border a lexical segmenter returns (usize inside a returned tuple / Ok / Err / Some) has the reviewed symbolic "
             "expression and is computed under the reviewed guards: this is the callee half of the invariant `a returned border never "
             "exceeds the slice it was computed on` that the callers' slice sites rely on")
    table = json.load(open(TABLE, encoding="utf-8")).get("borders", {})
    sites = border_sites(ctx.facts)
    import blen
    _sites, post_ok = blen.proofs(ctx.facts)
    renumbered_b = {}
    grp = {}
    for key, b, bi, st, ops, live in sites:
        grp.setdefault(key.rsplit(" #", 1)[0], []).append((key, ops, live))
    for stem, ss in grp.items():
        ents = {k: e for k, e in table.items() if k.rsplit(" #", 1)[0] == stem}
        fits = lambda o, l, e: e["ops"] == o and all(g in l for g in e["need"])
        if not ents or len(ss) != len(ents) or len(ss) > 8 or all(k in ents and fits(o, l, ents[k]) for k, o, l in ss):
            continue          # (a permutation of the numbering only: no returned border may appear or vanish)
        cand = [[ek for ek, e in ents.items() if fits(o, l, e)] for k, o, l in ss]

        def assign(i, used):
            if i == len(ss):
                return {}
            for ek in cand[i]:
                if ek not in used:
                    r = assign(i + 1, used | {ek})
                    if r is not None:
                        r[ss[i][0]] = ek
                        return r
            return None
        r = assign(0, frozenset())
        if r:
            renumbered_b.update(r)
    for key, b, bi, st, ops, live in sites:
        ctx.fn(b)
        ent = table.get(key)
        site = "%s:%s" % (b["span"]["file"], st["line"])
        # B-LEN proves `every returned border <= len(env)` for this function on the current code: the reviewed expression is not needed
        # (only for functions that contain spliced helper code, see P-GUARD: elsewhere the reviewed expression also pins the VALUE of the border)
        proved = post_ok.get(b["path"]) is True and any(bl.get("inlined") for bl in b["blocks"])
        if ent is None:
            ctx.ob("R-BORDER", key + (" (post proved by B-LEN)" if proved else ""), proved, "new returned border, not in the reviewed table", site)
            continue
        missing = [x for x in ent["need"] if x not in live]
        if proved and not (ops == ent["ops"] and not missing):
            ctx.ob("R-BORDER", key + " (post proved by B-LEN)", True, "", site)
            continue
        if not (ops == ent["ops"] and not missing) and key in renumbered_b:
            # ordinals follow the block order: a one-to-one renumbering of ALL returned borders of this function and kind exists under which
            # each has exactly the reviewed expression and guards
            ent, missing = table[renumbered_b[key]], []
            ops = ent["ops"]
        ctx.ob("R-BORDER", key, ops == ent["ops"] and not missing,
               ("border expression changed: %s (reviewed %s)" % (ops, ent["ops"]) if ops != ent["ops"] else "") + (" reviewed guard no longer forced: %s" % missing if missing else ""), site)
    ctx.floor("returned borders", len(sites), floor)
