"""Path-sensitive evaluation of a loop-free MIR body over a small symbolic value domain (no solver: values are terms, branches on a term whose
variant is unknown fork the path and record the assumption, branches on a known aggregate follow the one feasible edge -- conditional constant
propagation done per path).  Used to decide V-CTOR by what a function DOES on each path rather than by how its ladder is spelled:

    values   ("agg", adt, variant, idx, (fields..))     an enum / struct value built on this path
             ("tuple", (elems..))
             ("next", i)                                   the Option returned by the i-th `next()` call of this path (0-based)
             ("tv", v)                                     the Result of try_validate_01(&v)
             ("branch", r)                                 ControlFlow returned by Try::branch on an opaque Result r
             ("valid", v)                                  v, known to have passed try_validate_01 on this path
             ("ref", v)                                    &v (snapshot: the analysed functions take references to immutable temporaries only)
             ("proj", v, variant, field)                   payload of an opaque enum value
             ("err", r)                                    from_residual(r)
             ("ctor", name, (args..))                      result of a crate constructor call
             ("call", name, (args..)) / ("const", c) / ("arg", i) / ("discr", v) / ("in01", v) / ("not", v) / ("undef",)
    path     events: ("next", i, "Some"|"None"), ("validate", v, True|False), ("in01", v, True|False); assumptions {value: discriminant}

`paths(body)` returns (list of (events, returned value, number of next() calls, values that passed is_in_01), None) or (None, reason) when the body is outside the fragment (a loop, more paths
than the bound, an unreadable construct on a path): callers treat that as "nothing proven", never as a violation."""
import mir

MAX_PATHS = 400
MAX_STEPS = 4000


class Unsupported(Exception):
    pass


def _proj_value(v, proj):
    for e in proj:
        k = e["k"]
        if k == "Deref":
            if v[0] == "ref":
                v = v[1]
            else:
                v = ("deref", v)          # a reference we did not see being taken (argument, constant, call result): an opaque place
        elif k == "Downcast":
            v = ("downcast", v, e["variant"], e.get("idx"))
        elif k == "Field":
            if v[0] == "downcast":
                base, var = v[1], v[2]
                if base[0] == "agg":
                    if base[2] != var:
                        raise Unsupported("downcast to %s of a known %s" % (var, base[2]))
                    v = base[4][e["idx"]]
                elif base[0] == "branch" and var == "Continue":
                    r = base[1]
                    v = ("ref", ("valid", r[1])) if r[0] == "tv" else ("proj", base, var, e["idx"])
                elif base[0] == "branch" and var == "Break":
                    v = ("residual", base[1])
                else:
                    v = ("proj", base, var, e["idx"])
            elif v[0] == "agg":
                v = v[4][e["idx"]]
            elif v[0] == "tuple":
                v = v[1][e["idx"]]
            else:
                v = ("field", v, e.get("name", e["idx"]))
        else:
            raise Unsupported("projection %s" % k)
    if v[0] == "downcast":
        raise Unsupported("bare downcast")
    return v


class State:
    __slots__ = ("env", "assume", "events", "nexts", "visited", "valid")

    def __init__(self):
        self.env, self.assume, self.events, self.nexts, self.visited, self.valid = {}, {}, [], 0, set(), set()

    def fork(self):
        s = State()
        s.env, s.assume, s.events, s.nexts, s.visited, s.valid = dict(self.env), dict(self.assume), list(self.events), self.nexts, set(self.visited), set(self.valid)
        return s


def _operand(st, body, op):
    if op["k"] in ("Copy", "Move"):
        pl = op["place"]
        l = pl["local"]
        base = st.env.get(l)
        if base is None:
            base = ("arg", l) if 1 <= l <= body["arg_count"] else ("undef",)
        return _proj_value(base, pl["proj"])
    if op["k"] == "Const":
        if "fn" in op:
            return ("fn", (op["fn"] or {}).get("def"))
        return ("const", repr(op.get("v")))
    raise Unsupported("operand %s" % op["k"])


def _rvalue(st, body, rv):
    k = rv["k"]
    if k in ("Use", "Cast"):
        return _operand(st, body, rv["op"])
    if k in ("Ref", "RawPtr"):
        pl = rv["place"]
        # `&*x` re-borrows: the reference itself
        if pl["proj"] and pl["proj"][-1]["k"] == "Deref":
            inner = _operand(st, body, {"k": "Copy", "place": dict(pl, proj=pl["proj"][:-1])})
            if inner[0] == "ref":
                return inner
        return ("ref", _operand(st, body, {"k": "Copy", "place": pl}))
    if k == "CopyForDeref":
        return _operand(st, body, {"k": "Copy", "place": rv["place"]})
    if k == "Aggregate":
        ops = tuple(_operand(st, body, o) for o in rv["ops"])
        if rv.get("agg") == "Adt":
            return ("agg", rv["adt"], rv.get("variant"), rv.get("variant_idx"), ops)
        if rv.get("agg") == "Tuple":
            return ("tuple", ops)
        return ("aggother", rv.get("agg"), ops)
    if k == "Discriminant":
        v = _operand(st, body, {"k": "Copy", "place": rv["place"]})
        if v[0] == "agg":
            return ("const", repr(v[3]))
        return ("discr", v)
    if k == "UnaryOp" and rv.get("op") == "Not":
        return ("not", _operand(st, body, rv["e"]))
    if k in ("BinaryOp", "UnaryOp", "Len", "NullaryOp", "Repeat", "ShallowInitBox", "ThreadLocalRef"):
        return ("opaque", k)
    raise Unsupported("rvalue %s" % k)


def _switch_key(v):
    """(subject, negated) of a switched value"""
    neg = False
    while v[0] == "not":
        v, neg = v[1], not neg
    return v, neg


def paths(body, ctor_prefixes=(), option_like=None):
    """option_like(value) -> True when a discriminant switch on `value` has exactly the outcomes 0 (None) / 1 (Some)"""
    blocks = body["blocks"]
    done, reason = [], None
    work = [(0, State())]
    steps = 0
    try:
        while work:
            bi, st = work.pop()
            while True:
                steps += 1
                if steps > MAX_STEPS or len(done) + len(work) > MAX_PATHS:
                    return None, "more than %d paths / %d steps" % (MAX_PATHS, MAX_STEPS)
                if bi in st.visited:
                    return None, "loop through bb%d" % bi
                st.visited.add(bi)
                bl = blocks[bi]
                for s in bl["stmts"]:
                    if s["k"] != "Assign":
                        continue
                    val = _rvalue(st, body, s["rv"])
                    pl = s["place"]
                    if pl["proj"]:
                        # a field store into a local: not needed by the analysed functions; the whole local becomes opaque
                        st.env[pl["local"]] = ("opaque", "partial-store")
                    else:
                        st.env[pl["local"]] = val
                t = bl["term"]
                k = t["k"]
                if k == "Goto":
                    bi = t["target"]
                    continue
                if k in ("Drop", "Assert", "FalseEdge", "FalseUnwind"):
                    bi = t.get("target") if t.get("target") is not None else t.get("real_target")
                    if bi is None:
                        raise Unsupported("terminator %s without target" % k)
                    continue
                if k == "Return":
                    done.append((st.events, st.env.get(0, ("undef",)), st.nexts, frozenset(st.valid), dict(st.assume)))
                    break
                if k == "Unreachable":
                    break
                if k == "SwitchInt":
                    d = _operand(st, body, t["discr"])
                    if d[0] == "const":
                        try:
                            c = int(eval(d[1]) if d[1] not in ("True", "False") else (d[1] == "True"))
                        except Exception:
                            raise Unsupported("switch on constant %s" % d[1])
                        nxt = [b for v, b in t["targets"] if v == c]
                        bi = nxt[0] if nxt else t["otherwise"]
                        continue
                    subj, neg = _switch_key(d)
                    if subj in st.assume:
                        c = st.assume[subj]
                        if neg:
                            c = 0 if c else 1
                        nxt = [b for v, b in t["targets"] if v == c]
                        bi = nxt[0] if nxt else t["otherwise"]
                        continue
                    # fork: one successor per explicit value; `otherwise` stands for "the other value" of a two-valued subject
                    vals = [v for v, b in t["targets"]]
                    if subj[0] == "isvar":
                        # `x.is_some()` / `x.is_none()`: a bool that stands for the discriminant of x
                        inner = ("discr", subj[1])
                        if inner in st.assume:
                            truth = (st.assume[inner] == 1) == (subj[2] == "Some")
                            c = (0 if truth else 1) if neg else (1 if truth else 0)
                            nxt = [b for v, b in t["targets"] if v == c]
                            bi = nxt[0] if nxt else t["otherwise"]
                            continue
                        vals = [v for v, b in t["targets"]]
                        succ = list(t["targets"])
                        if len(vals) == 1:
                            succ.append((1 - vals[0], t["otherwise"]))
                        elif sorted(vals) != [0, 1]:
                            raise Unsupported("switch values %s" % vals)
                        for v, b in succ:
                            s2 = st.fork()
                            truth = (v == 0) if neg else (v == 1)
                            s2.assume[inner] = (1 if truth else 0) if subj[2] == "Some" else (0 if truth else 1)
                            work.append((b, s2))
                        break
                    two = (subj[0] == "discr" and subj[1][0] in ("next", "branch", "tv")) or subj[0] == "in01" \
                        or (subj[0] == "discr" and option_like is not None and option_like(subj[1]))
                    if not two:
                        raise Unsupported("switch on %s" % (subj[0],))
                    succ = list(t["targets"])
                    if len(vals) == 1:
                        succ.append((1 - vals[0], t["otherwise"]))
                    elif sorted(vals) != [0, 1]:
                        raise Unsupported("switch values %s" % vals)
                    for v, b in succ:
                        s2 = st.fork()
                        real = (0 if v else 1) if neg else v
                        s2.assume[subj] = real
                        if subj[0] == "discr" and subj[1][0] == "next":
                            s2.events.append(("next", subj[1][1], "Some" if real == 1 else "None"))
                        elif subj[0] == "discr" and subj[1][0] == "branch" and subj[1][1][0] == "tv":
                            s2.events.append(("validate", subj[1][1][1], real == 0))
                        elif subj[0] == "discr" and subj[1][0] == "tv":
                            s2.events.append(("validate", subj[1][1], real == 0))
                        elif subj[0] == "in01":
                            s2.events.append(("in01", subj[1], real == 1))
                            if real == 1:
                                s2.valid.add(subj[1])
                        work.append((b, s2))
                    break
                if k == "Call":
                    name = mir.callee_name(t) or ""
                    path = mir.callee_path(t) or ""
                    args = tuple(_operand(st, body, a) for a in t["args"])
                    if name == "next" and "Iterator" in path:
                        val = ("next", st.nexts)
                        st.nexts += 1
                    elif name == "try_validate_01" and len(args) == 1 and args[0][0] == "ref":
                        val = ("tv", args[0][1])
                    elif name == "is_in_01" and len(args) == 1 and args[0][0] == "ref":
                        val = ("in01", args[0][1])
                    elif name in ("is_some", "is_none") and len(args) == 1 and args[0][0] == "ref" and ("option::Option" in path):
                        val = ("isvar", args[0][1], "Some" if name == "is_some" else "None")
                    elif name == "branch" and len(args) == 1:
                        a = args[0]
                        if a[0] == "agg" and a[2] == "Ok":
                            val = ("agg", "std::ops::ControlFlow", "Continue", 0, (a[4][0],))
                        elif a[0] == "agg" and a[2] == "Err":
                            val = ("agg", "std::ops::ControlFlow", "Break", 1, (("agg", a[1], "Err", 1, a[4]),))
                        elif a[0] == "err":
                            val = ("agg", "std::ops::ControlFlow", "Break", 1, (a,))
                        else:
                            val = ("branch", a)
                    elif name == "from_residual" and len(args) == 1:
                        val = ("err", args[0])
                    elif name in ("deref", "clone", "borrow", "as_ref", "into", "from") and len(args) == 1 and name in mir.TRANSPARENT_CALLS:
                        val = args[0]
                    elif any(path.startswith(p) for p in ctor_prefixes):
                        val = ("ctor", name, args)
                    else:
                        val = ("call", name, args)
                    if t["dest"]["proj"]:
                        st.env[t["dest"]["local"]] = ("opaque", "partial-store")
                    else:
                        st.env[t["dest"]["local"]] = val
                    if t.get("target") is None:
                        break            # diverging call
                    bi = t["target"]
                    continue
                raise Unsupported("terminator %s" % k)
    except Unsupported as e:
        return None, "unsupported: %s" % e
    return done, None


def is_valid_item(v, i, events_valid=()):
    """v is the payload of the i-th next() of the path, validated on the path"""
    payload = ("proj", ("next", i), "Some", 0)
    return v == ("valid", payload) or (v == payload and payload in events_valid)


def show(v, depth=0):
    if not isinstance(v, tuple) or depth > 6:
        return str(v)
    if v[0] == "agg":
        return "%s(%s)" % (v[2], ", ".join(show(x, depth + 1) for x in v[4]))
    if v[0] == "ctor":
        return "%s(%s)" % (v[1], ", ".join(show(x, depth + 1) for x in v[2]))
    if v[0] == "valid":
        return "valid(%s)" % show(v[1], depth + 1)
    if v[0] == "proj":
        return "%s.%s.%s" % (show(v[1], depth + 1), v[2], v[3])
    if v[0] == "next":
        return "next#%d" % v[1]
    if v[0] == "err":
        return "Err<-%s" % show(v[1], depth + 1)
    if v[0] == "residual":
        return "residual(%s)" % show(v[1], depth + 1)
    if v[0] == "tv":
        return "try_validate_01(%s)" % show(v[1], depth + 1)
    return "%s%s" % (v[0], "(" + ", ".join(show(x, depth + 1) for x in v[1:]) + ")" if len(v) > 1 else "")
