"""W-ENUM: whitespace typestate over the enum parser's MIR (interprocedural, summaries).

cursor state: S  = spaces skipped since the last token (or known not to be at a space)
              E  = whatever the caller's state was at entry
              Nk = a keyword / sub-item was just consumed
              Nc = a single character was just consumed (still inside a char-wise token scan)
A token-start read (test of a non-space table keyword or a delimiter parameter with starts_with, the copula
look-ahead, a branch on the current character) in state Nk on some path is a violation: inserting a space at that token
boundary would change the parse."""
import mir

ENUM_STATE = "conversion::string::impl_enum::parser::ParseState"
S, E, NK, NC, F = "S", "E", "Nk", "Nc", "F"

# reads in Nk that are legitimate, with the reason (reviewed)
EXCEPTIONS = {
    ("parse_atom", "char"): "prefix and name form one token: the name is scanned right after the atom prefix",
    ("parse_atom", "copula-lookahead"): "prefix and name form one token: the look-ahead only terminates the name scan",
}


def state_arg(body):
    for i in range(1, body["arg_count"] + 1):
        t = body["locals"][i]["ty"]
        if ENUM_STATE in t and t.startswith("&"):
            return i
    return None


class Summary:
    def __init__(self):
        self.needs = False          # a token-start read can happen in the entry state
        self.needs_what = None
        self.exit = set()           # subset of {S, E, Nk, Nc}
        self.kind = None            # 'move' / 'advance' for the two primitives that store `head`
        self.arg = None
        self.has_reads = False      # token-level function (performs reads) vs pure cursor mover

    def key(self):
        return (self.needs, frozenset(self.exit), self.kind, self.arg, self.has_reads)


class WEnum:
    def __init__(self, ctx):
        self.ctx = ctx
        self.f = ctx.facts
        self.bodies = {}
        for p, b in self.f.mir.items():
            if "impl_enum::parser" not in p:
                continue
            if state_arg(b) is not None:
                self.bodies[p] = b
        self.sum = {p: Summary() for p in self.bodies}
        self.viol = {}
        self.reads = 0
        self.space_tests = 0
        self.pending_edge = {}

    # -- helpers ----------------------------------------------------------
    def derives(self, g, op, locals_, depth=0):
        if op["k"] not in ("Copy", "Move"):
            return False
        l = op["place"]["local"]
        if l in locals_:
            return True
        if depth > 8:
            return False
        for d in g.defs.get(l, []):
            rv = d[2]
            if rv["k"] in ("Use", "Cast") and self.derives(g, rv["op"], locals_, depth + 1):
                return True
            if rv["k"] in ("Ref", "CopyForDeref", "RawPtr") and self.derives(g, {"k": "Copy", "place": rv["place"]}, locals_, depth + 1):
                return True
            if rv["k"] == "Aggregate" and any(self.derives(g, o, locals_, depth + 1) for o in rv["ops"]):
                return True
        return False

    def kw_of(self, g, op):
        """table field a &str operand names, e.g. 'space.parse', or 'param:<name>' for delimiter parameters"""
        r, p = g.resolve_operand(op)
        for i, x in enumerate(p):
            if x in ("space", "atom", "compound", "statement", "sentence", "task"):
                return ".".join(p[i:])
        if r[0] == "arg":
            return "param:" + (g.body["locals"][r[1]]["name"] or "_%d" % r[1])
        if r[0] == "call":
            return "call:" + (mir.callee_name(r[1]) or "?")
        return "?"

    # -- intraprocedural pass ------------------------------------------------
    def analyse(self, path, record=False):
        """dataflow over pairs (cursor state, valuation of constant-bool flag locals that are later switched on):
        the flags model the one correlation the repo's macros create (`ok = match result {Ok=>true, Err=>false}; if ok ..`)"""
        b = self.bodies[path]
        g = mir.cfg(b)
        sa = state_arg(b)
        summ = Summary()
        name = b["name"] if b["defkind"] != "Closure" else (path.split("::")[-2] + "::closure")
        # flag locals: switched on in a normal block and assigned only bool constants
        switched = set()
        for bi in g.reach:
            t = b["blocks"][bi]["term"]
            if t["k"] == "SwitchInt" and not b["blocks"][bi]["cleanup"] and t["discr"]["k"] in ("Copy", "Move") and not t["discr"]["place"]["proj"]:
                switched.add(t["discr"]["place"]["local"])
        flags = set()
        for l in switched:
            ds = g.defs.get(l, [])
            if ds and all(d[2]["k"] == "Use" and d[2]["op"]["k"] == "Const" and isinstance(d[2]["op"].get("v"), bool) for d in ds):
                flags.add(l)
        IN = {0: {(E, frozenset())}}
        saved = {}
        tainted = set()
        work = [0]
        seen_out = {}

        def is_head(place):
            r, p = g.resolve_place(place)
            return r == ("arg", sa) and p == ["head"]

        def cs_of(cur):
            return set(c for c, _ in cur)

        def setcs(cur, new):
            """replace the cursor component by the set `new` for every flag valuation"""
            return set((n, fl) for _, fl in cur for n in new) if cur else set()

        while work:
            bi = work.pop()
            cur = set(IN.get(bi, set()))
            bl = b["blocks"][bi]
            if bl["cleanup"]:
                continue
            for s in bl["stmts"]:
                if s["k"] != "Assign":
                    continue
                pl, rv = s["place"], s["rv"]
                if not pl["proj"] and pl["local"] in flags and rv["k"] == "Use" and rv["op"]["k"] == "Const":
                    v = rv["op"].get("v")
                    cur = set((c, frozenset([x for x in fl if x[0] != pl["local"]] + [(pl["local"], v)])) for c, fl in cur)
                    continue
                ops = mir._operands(rv)
                if any(o["k"] in ("Copy", "Move") and o["place"]["local"] in tainted for o in ops) or \
                        (rv["k"] in ("Ref", "CopyForDeref", "Discriminant") and rv["place"]["local"] in tainted):
                    tainted.add(pl["local"])
                if not pl["proj"] and rv["k"] == "Use" and rv["op"]["k"] in ("Copy", "Move") and rv["op"]["place"]["proj"] and is_head(rv["op"]["place"]):
                    saved[pl["local"]] = saved.get(pl["local"], set()) | cs_of(cur)
                if not pl["proj"] and rv["k"] == "Use" and rv["op"]["k"] in ("Copy", "Move") and not rv["op"]["place"]["proj"] and rv["op"]["place"]["local"] in saved:
                    saved[pl["local"]] = saved.get(pl["local"], set()) | saved[rv["op"]["place"]["local"]]
                if pl["proj"] and is_head(pl):
                    src = rv["op"] if rv["k"] == "Use" else None
                    kind = "unknown"
                    if src is not None and src["k"] in ("Copy", "Move"):
                        sl = src["place"]["local"]
                        ds = g.defs.get(sl, [])
                        if ds and all(d[2]["k"] == "BinaryOp" and d[2]["op"].startswith("Add") for d in ds):
                            d = ds[0][2]
                            other = [o for o in (d["l"], d["r"]) if not (o["k"] in ("Copy", "Move") and o["place"]["proj"] and is_head(o["place"]))]
                            if len(other) == 1:
                                if other[0]["k"] == "Const":
                                    kind = "adv-const"
                                else:
                                    r2, p2 = g.resolve_operand(other[0])
                                    if r2[0] == "arg":
                                        summ.kind, summ.arg = "advance", r2[1]
                                    kind = "adv"
                        else:
                            r2, p2 = g.resolve_operand(src)
                            if r2[0] == "arg" and not p2:
                                summ.kind, summ.arg = "move", r2[1]
                                kind = "move"
                            elif sl in saved:
                                cur = setcs(cur, saved[sl])
                                kind = "restored"
                    elif src is not None and src["k"] == "Const":
                        kind = "const"
                        cur = setcs(cur, {S})
                    if kind == "adv-const":
                        cur = setcs(cur, {NC})
                    elif kind in ("adv", "unknown"):
                        cur = setcs(cur, {NK})
            t = bl["term"]
            out_default = cur
            EDGE = {}
            if t["k"] == "Call":
                cal = mir.callee_path(t)
                nm = mir.callee_name(t)
                passes = any(self.derives(g, a, {sa}) for a in t["args"])
                if nm == "head_char" and passes and t["dest"] is not None:
                    tainted.add(t["dest"]["local"])
                elif any(a["k"] in ("Copy", "Move") and a["place"]["local"] in tainted for a in t["args"]):
                    tainted.add(t["dest"]["local"])
                if nm == "starts_with" and passes and cal in self.bodies:
                    kw = self.kw_of(g, t["args"][1])
                    if kw == "space.parse":
                        if record:
                            self.space_tests += 1
                        br = g.bool_branch(bi)
                        if br:
                            self.pending_edge[(path, g.last_switch_block, br[1])] = True
                    else:
                        self.read(summ, cs_of(cur), name, "keyword", kw, t, record, b)
                elif nm == "is_copula_starts_at_head" and passes:
                    self.read(summ, cs_of(cur), name, "copula-lookahead", "copulas", t, record, b)
                elif cal in self.sum and passes and nm not in ("head_char", "can_consume", "starts_with"):
                    cs = self.sum[cal]
                    if cs.kind == "move":
                        a = t["args"][cs.arg - 1]
                        st = None
                        if a["k"] in ("Copy", "Move"):
                            l = a["place"]["local"]
                            st = saved.get(l)
                            if st is None:
                                for d in g.defs.get(l, []):
                                    if d[2]["k"] == "Use" and d[2]["op"]["k"] in ("Copy", "Move") and d[2]["op"]["place"]["local"] in saved:
                                        st = saved[d[2]["op"]["place"]["local"]]
                        out_default = setcs(cur, set(st) if st else {NK})
                    elif cs.kind == "advance":
                        a = t["args"][cs.arg - 1]
                        out_default = setcs(cur, {NC} if a["k"] == "Const" else {NK})
                    else:
                        if cs.needs:
                            self.read(summ, cs_of(cur), name, "call", (self.f.mir[cal]["name"] if self.f.mir[cal]["defkind"] != "Closure" else "closure") + " [" + str(cs.needs_what) + "]", t, record, b)
                        nxt = set()
                        for c0, fl in cur:
                            for e in cs.exit:
                                if e == E:
                                    nxt.add((c0, fl))
                                elif e == NC:
                                    nxt.add((NK if cs.has_reads else NC, fl))
                                else:
                                    nxt.add((e, fl))
                        out_default = nxt if cs.exit else set()
            elif t["k"] == "SwitchInt":
                d = t["discr"]
                if d["k"] in ("Copy", "Move") and d["place"]["local"] in tainted:
                    self.read(summ, cs_of(cur), name, "char", "current character", t, record, b)
                dl = d["place"]["local"] if d["k"] in ("Copy", "Move") and not d["place"]["proj"] else None
                if dl in flags:
                    # filter by flag value, then forget the flag
                    for v, tb in t["targets"]:
                        EDGE[tb] = set((c, frozenset(x for x in fl if x[0] != dl)) for c, fl in cur if (dl, bool(v)) in fl or not any(x[0] == dl for x in fl))
                    vals = set(bool(v) for v, _ in t["targets"])
                    rest = [x for x in (True, False) if x not in vals]
                    EDGE[t["otherwise"]] = set((c, frozenset(x for x in fl if x[0] != dl)) for c, fl in cur
                                               if any((dl, r) in fl for r in rest) or not any(x[0] == dl for x in fl))
                # space test false edge (registered when the starts_with(space) call was seen)
                for (pp, sb, tb) in list(self.pending_edge):
                    if pp == path and sb == bi:
                        base = EDGE.get(tb, cur)
                        EDGE[tb] = setcs(base, {S})
                # failure edges
                if dl is not None:
                    for dd in g.defs.get(dl, []):
                        if dd[2]["k"] == "Discriminant":
                            r0, p0 = g.resolve_place(dd[2]["place"])
                            ty = None
                            if r0[0] in ("local", "arg"):
                                ty = b["locals"][r0[1]]["ty"]
                            elif r0[0] == "call":
                                ty = b["locals"][r0[1]["dest"]["local"]]["ty"]
                            if ty and "ParseError" in ty and (ty.startswith("std::result::Result<") or ty.startswith("std::ops::ControlFlow<")):
                                for v, tb in t["targets"]:
                                    if v == 1:
                                        EDGE[tb] = setcs(cur, {F})
                                    elif v == 0:
                                        EDGE[tb] = set((c, fl) for c, fl in cur if c != F)
            elif t["k"] == "Return":
                summ.exit |= cs_of(cur)
            for sx in g.succ[bi]:
                if b["blocks"][sx]["cleanup"]:
                    continue
                st = EDGE.get(sx, out_default)
                old = IN.get(sx, set())
                new = old | st
                if new != old or sx not in seen_out:
                    IN[sx] = new
                    seen_out[sx] = True
                    work.append(sx)
        return summ

    def read(self, summ, cur, fname, kind, what, t, record, b):
        summ.has_reads = True
        if E in cur and not summ.needs:
            summ.needs = True
            summ.needs_what = "%s %s" % (kind, what)
        if record:
            self.reads += 1
            if NK in cur:
                exc = EXCEPTIONS.get((fname, kind))
                key = "%s reads %s %s right after a consumed token" % (fname, kind, what)
                self.viol.setdefault(key, (exc, "%s:%s" % (b["span"]["file"], t["line"])))

    # -- fixpoint ------------------------------------------------------------
    def run(self):
        for it in range(30):
            changed = False
            for p in sorted(self.bodies):
                s = self.analyse(p)
                old = self.sum[p]
                # monotone join
                s.needs = s.needs or old.needs
                s.needs_what = old.needs_what or s.needs_what
                s.exit |= old.exit
                s.kind = s.kind or old.kind
                s.arg = s.arg or old.arg
                s.has_reads = s.has_reads or old.has_reads
                if s.key() != old.key():
                    changed = True
                self.sum[p] = s
            if not changed:
                break
        for p in sorted(self.bodies):
            self.analyse(p, record=True)
        return self.viol
