"""P-SKELETON: the *consumption skeleton* of every enum-parser function -- which keyword is tested, which is skipped, which sub-parser is
called with which keyword arguments, which result slot is read / filled, in evaluation order and with the branch structure -- compared with
the reviewed reference checks/tables/parser_skeletons.json (one grammar production per function, e.g.
    consume_truth = skip_and_spaces(truth_brackets.0) parse_separated_floats(truth_separator, truth_brackets.1) skip_after_spaces(truth_brackets.1) slot truth.insert).
Everything that is not consumption (value construction, range checks, error texts, buffers' contents) is abstracted away, so refactorings that
keep the production keep the check silent; a deleted / duplicated / re-targeted skip, a test of the wrong keyword, a sub-parser handed the wrong
bracket or the wrong slot are reported with the position in the skeleton.  (Found necessary by the automatic mutation analysis: ~60 one-token
mutants of this kind were invisible to every earlier rule.)"""
import json, os
import hir, maps
from hir import strip, field_path

TABLE = os.path.join(os.path.dirname(os.path.dirname(os.path.abspath(__file__))), "tables", "parser_skeletons.json")
MOD = "impl_enum::parser"
CURSOR = {"head_skip", "head_skip_and_spaces", "head_skip_after_spaces", "head_skip_spaces", "head_step_one", "head_step", "head_move", "reset", "reset_to"}
TESTS = {"starts_with", "can_consume", "is_copula_starts_at_head", "head_char"}
SLOT_METHODS = {"is_none", "is_some", "insert", "take", "unwrap", "replace", "get_or_insert", "as_ref", "clone"}
BUFFER_METHODS = {"push", "push_str", "clear"}
STATE_RECV = (("self",), ("parser",), ("state",))
ITER_LOOPS = {"for_each", "try_for_each", "all", "any", "map", "filter", "filter_map", "find", "find_map", "position", "take_while", "skip_while",
              "fold", "flat_map", "inspect", "map_while"}
LOCAL_PREFIXES = ("parse_", "consume_", "form_", "build_", "transform_", "from_parse", "new_image", "set_atom_name", "push_components")


def is_string_ty(ty):
    return (ty or "").replace("&mut ", "").replace("&", "").strip() in ("std::string::String", "String", "alloc::string::String")


PARAMS = {}      # name -> "$k" for the function being abstracted (set by Skel.of_fn)


def _alias_root(e):
    """`e` = <local>.f.g with <local> an immutable `let` bound to a pure place expression that leads to a format-table field: the same
    expression with the local replaced by that place; else None"""
    chain, x = [], e
    while True:
        x = strip(x)
        if x["k"] == "Field":
            chain.append(x)
            x = x["e"]
        elif x["k"] == "AddrOf" or (x["k"] == "Unary" and x.get("op") in ("*", "Deref")):
            x = x["e"]
        else:
            break
    if not (x["k"] == "Path" and x["path"].get("res") == "local" and x["path"].get("hid") in LETS):
        return None
    i_ = strip(LETS[x["path"]["hid"]])
    while i_["k"] == "AddrOf" or (i_["k"] == "Unary" and i_.get("op") in ("*", "Deref")):
        i_ = strip(i_["e"])
    ifp = field_path(i_)
    if not ifp:
        return None
    probe = ifp + tuple(c["name"] for c in reversed(chain))
    # the initialiser may itself start at another alias (`let t = &self.format.task; let (l, r) = &t.budget_brackets;`) or at a parameter /
    # `self` whose field is meant (`let Task { sentence: s, .. } = self;`): accepted when the chain ends in a table field, in another alias,
    # or in a field of `self` / a parameter
    root = i_
    while root["k"] == "Field" or root["k"] == "AddrOf" or (root["k"] == "Unary" and root.get("op") in ("*", "Deref")):
        root = strip(root["e"])
    root_alias = root["k"] == "Path" and root["path"].get("res") == "local" and root["path"].get("hid") in LETS
    root_param = root["k"] == "Path" and root["path"].get("res") == "local" and (root["path"].get("name") in PARAMS or root["path"].get("name") == "self") \
        and root["path"].get("name") not in STATE_NAMES - {"self"} and not (root["path"].get("name") == "self" and "mut" in str(root.get("ty", "")))
    if not (maps.table_field(probe) or maps.table_field(ifp) or root_alias or (root_param and len(ifp) > 1)):
        return None
    out = i_
    for c in reversed(chain):
        out = dict(c, e=out)
    return out


STATE_NAMES = {"self"}     # locals / parameters of the function being abstracted whose type is the enum ParseState (set by Skel.of_fn)


def _state_names(it):
    out = {"self"}
    for n in hir.walk(it["body"]):
        if n.get("k") == "Path" and n.get("path", {}).get("res") == "local" and "impl_enum::parser::ParseState" in (n.get("ty") or ""):
            out.add(n["path"]["name"])
    return out


LETS = {}        # hid -> initialiser of the immutable `let`s of the function being abstracted (set by Skel.of_fn)


def argkey(e):
    e = strip(e)
    while e["k"] == "AddrOf" or (e["k"] == "Unary" and e.get("op") in ("*", "Deref")):
        e = strip(e["e"])
    # a named temporary for a keyword (`let right = self.format.compound.brackets.1;`, `let b = &self.format.sentence.truth_brackets; b.0`)
    # is that keyword: the format tables are immutable
    for _ in range(4):
        r = _alias_root(e)
        if r is None:
            break
        e = r
    # a named temporary for a pure call (`let n = left.chars().count();`) reads as that call
    if e["k"] == "Path" and e["path"].get("res") == "local" and e["path"].get("hid") in LETS and e["path"].get("name") not in PARAMS:
        i_ = strip(LETS[e["path"]["hid"]])
        if i_["k"] in ("Call", "MethodCall") and not any(n.get("k") in ("Assign", "AssignOp") for n in hir.walk(i_)):
            return "%s(..)" % hir.callee_name(i_)
    fp = field_path(e)
    if fp:
        tf = maps.table_field(fp)
        if tf:
            return tf
        if fp[0] in STATE_NAMES:
            return ".".join(("self",) + tuple(fp[1:]))
        # binder independent: parameters by position, other locals anonymous
        root = PARAMS.get(fp[0], "·")
        return root if len(fp) == 1 else ".".join((root,) + tuple(fp[1:]))
    if e["k"] == "Lit":
        v = e["lit"]["v"]
        return repr(v) if not (isinstance(v, str) and len(v) > 3) else "<str>"
    if e["k"] in ("Call", "MethodCall"):
        return "%s(..)" % hir.callee_name(e)
    if e["k"] == "Closure":
        return "<closure>"
    if e["k"] == "Match" and "TryDesugar" in str(e.get("source", "")):
        return "·"          # `f(x?)` and `let v = x?; f(v)`: the value of a `?` is an anonymous local either way
    return "<%s>" % e["k"]


class Skel:
    def __init__(self, facts):
        self.f = facts
        self.progress_only = set()

    def of_fn(self, it):
        PARAMS.clear()
        LETS.clear()
        LETS.update(hir.let_env(it["body"]))
        self._fn_body = it["body"]
        self._depth = 0
        self.break_rest = None
        self.ret_rest = None
        STATE_NAMES.clear()
        STATE_NAMES.update(_state_names(it))
        k = 0
        for q in it.get("params", []):
            if q.get("k") == "Binding" and q["name"] != "self":
                k += 1
                PARAMS[q["name"]] = "$%d" % k
        # `let start = self.head; ...; if self.head == start {err}` is a PROGRESS TEST: the snapshot is not a backtracking point.  It is the same
        # production as `if buffer.is_empty() {err}` on the String the scanner fills, so both are rendered ("noprogress",)
        self.progress_only = set()
        snaps = {}
        for n in hir.walk(it["body"]):
            if n.get("k") == "Let" and n.get("init") is not None and n["pat"].get("k") == "Binding":
                ip = field_path(strip(n["init"]))
                if ip and ip[0] in STATE_NAMES and ip[-1] == "head":
                    snaps[n["pat"]["hid"]] = 0
        if snaps:
            uses, cmps = dict.fromkeys(snaps, 0), dict.fromkeys(snaps, 0)
            for n in hir.walk(it["body"]):
                if n.get("k") == "Path" and n["path"].get("res") == "local" and n["path"].get("hid") in snaps:
                    uses[n["path"]["hid"]] += 1
                if n.get("k") == "Binary" and n["op"] in ("==", "!=", "Eq", "Ne"):
                    for a, b_ in ((n["l"], n["r"]), (n["r"], n["l"])):
                        a, b_ = strip(a), strip(b_)
                        if a["k"] == "Path" and a["path"].get("hid") in snaps and (field_path(b_) or ("",))[-1] == "head" and len(field_path(b_)) == 2 and field_path(b_)[0] in STATE_NAMES:
                            cmps[a["path"]["hid"]] += 1
            self.progress_only = {h for h in snaps if uses[h] == cmps[h] and uses[h] > 0}
        return self.tail_ret(self.norm(self.ops(it["body"])))

    def _for_ops(self, e, sc):
        # `for pat in it { BODY }` desugars to match into_iter(it) { mut iter => loop { match next(&mut iter) { None => break,
        # Some(pat) => BODY } } }: the loop body is BODY
        body = None
        for n in hir.walk(e["arms"][0]["body"]):
            if n.get("k") == "Match" and n is not e:
                for a in n["arms"]:
                    try:
                        if hir.pat_variants(a["pat"]) == {"Some"}:
                            body = self.ops(a["body"])
                    except hir.Unrecognised:
                        pass
                break
        if body is None:
            body = []
            for a in e["arms"]:
                body += self.ops(a["body"])
        # iterator adaptors are lazy: the closures of `it.map(f).filter(g)` run per item inside this loop, before BODY
        sc = list(sc)
        while sc and sc[-1][0] == "loop":
            body = list(sc.pop()[1]) + list(body)
        return sc + [("loop", self.norm(body))]

    @staticmethod
    def inlined_loop(init):
        """the Loop that is the whole body of an inlined helper standing as a `let` initialiser (`let x = helper(..)?;` / `= helper(..);`)"""
        x = strip(init) if init else None
        while x is not None and x.get("k") == "DropTemps":
            x = strip(x["e"])
        if x is not None and x.get("k") == "Match" and "TryDesugar" in str(x.get("source", "")):
            sc = x.get("scrut") or {}
            if sc.get("k") == "Call" and len(sc.get("args") or []) == 1:
                x = strip(sc["args"][0])
        if x is not None and x.get("k") == "Loop" and x.get("inlined_from"):
            return x
        return None

    def loop_with_rest(self, loop, rest, ret_too=False):
        """a `loop` / `while` STATEMENT followed by REST (up to the end of the enclosing function body): leaving the loop by `break` means
        "do REST and return", so REST is attached to every `break` of this loop and nothing follows the loop.  `loop { .. break Ok(x) }` as
        the value of the function and `while c { .. return Err(e) } ..; Ok(x)` then have one skeleton."""
        old_ = getattr(self, "break_rest", None)
        old_r = getattr(self, "ret_rest", None)
        self.break_rest = list(rest) + [("ret",)]
        if ret_too:
            self.ret_rest = self.break_rest          # inside an inlined helper `return v` hands v to the continuation, like `break v`
        try:
            return [("loop", self.norm(self.ops(loop["body"])))]
        finally:
            self.break_rest = old_
            self.ret_rest = old_r

    def tail_ret(self, seq):
        """`return X` in tail position of the function is `X`: the ('ret',) marker is dropped there (recursively into the branches of a tail
        `if` / `match`; not inside loops, where `return` and falling through differ)"""
        seq = list(seq)
        while seq and seq[-1] == ("ret",):
            seq.pop()
        if seq and isinstance(seq[-1], tuple) and seq[-1]:
            o = seq[-1]
            if o[0] == "if":
                seq[-1] = ("if", o[1], self.tail_ret(o[2]), self.tail_ret(o[3]))
            elif o[0] == "match":
                seq[-1] = ("match", tuple(self.tail_ret(a) for a in o[1]))
            elif o[0] == "else":
                seq[-1] = ("else", self.tail_ret(o[1]))
        return tuple(seq)

    # ---- canonical branch form ------------------------------------------------------------------------------------------------------
    # `if c { return .. } REST`, `if !c { REST } else { return .. }`, `match c { true => REST, false => break }` are one production: a test
    # with a continuing and a leaving branch.  Canonical form: the leading `!` of a condition is removed by exchanging the branches, and what
    # follows an `if` with exactly one leaving branch is moved into its continuing branch.  Polarity stays visible structurally (then / else).
    as_branch = staticmethod(hir.as_branch)
    leaves = staticmethod(hir.leaves)

    COMPLEMENT = {"Some": "None", "None": "Some", "Ok": "Err", "Err": "Ok"}

    @staticmethod
    def arm_key(pat, guard=None):
        """sort key of a match arm whose pattern is a plain (or-)variant pattern without guard, else None"""
        if guard:
            return None
        q = pat
        while q.get("k") in ("Ref", "Box", "Deref"):
            q = q["pat"]
        if q.get("k") == "Tuple":
            # tuple pattern: per position the variant set, "_" for anything; `..` is kept as a marker and padded in match_ops
            elems = []
            for sub in q.get("pats", []):
                try:
                    v = hir.pat_variants(sub)
                except hir.Unrecognised:
                    return None
                elems.append("_" if v is None else tuple(sorted(str(x) for x in v)))
            return ("T", tuple(elems), q.get("ddpos"))
        try:
            v = hir.pat_variants(pat)
        except hir.Unrecognised:
            return None
        if v is None:
            return None
        return tuple(sorted(str(x) for x in v))

    @staticmethod
    def _disjoint(k1, k2):
        t1, t2 = (k1 and k1[0] == "T"), (k2 and k2[0] == "T")
        if t1 != t2:
            return False
        if not t1:
            return not (set(k1) & set(k2))
        return len(k1[1]) == len(k2[1]) and any(a != "_" and b != "_" and not (set(a) & set(b)) for a, b in zip(k1[1], k2[1]))

    def match_ops(self, sc, arms):
        """arms: [(key or None, ops)].  Arms whose patterns are pairwise DISJOINT (plain variant patterns, or tuple patterns that differ in the
        variants of some position) are order-free: they are sorted (a trailing wildcard / binding arm stays last); any other match keeps
        its source order."""
        # pad `..` of tuple patterns to the longest arity
        n = max([len(k[1]) for k, o in arms if k and k[0] == "T"] or [0])
        padded = []
        for k, o in arms:
            if k and k[0] == "T":
                el, dd = list(k[1]), k[2]
                if dd is not None and len(el) < n:
                    el = el[:dd] + ["_"] * (n - len(el)) + el[dd:]
                k = ("T", tuple(el))
            padded.append((k, o))
        # `A | B => X` is `A => X, B => X`: one arm per variant, so that splitting / merging or-patterns changes nothing
        arms = []
        for k, o in padded:
            if k and k[0] != "T" and len(k) > 1:
                arms += [((v,), o) for v in k]
            else:
                arms.append((k, o))
        keys = [k for k, o in arms]
        head = arms[:-1] if (keys and (keys[-1] is None or (keys[-1][0] == "T" and all(x == "_" for x in keys[-1][1])))) else arms
        if head and all(k is not None for k, o in head) and all(self._disjoint(a[0], b[0]) for i, a in enumerate(head) for b in head[i + 1:]):
            arms = sorted(head, key=lambda ko: repr(ko[0])) + arms[len(head):]
        elif len(arms) > 2 and all(k is not None for k, o in arms):
            # an arm that is disjoint from EVERY other arm can stand anywhere: such arms go first (sorted), the first-match order of the
            # overlapping rest is kept
            free = [i for i, a in enumerate(arms) if all(self._disjoint(a[0], b[0]) for j, b in enumerate(arms) if j != i)]
            if free:
                arms = sorted([arms[i] for i in free], key=lambda ko: repr(ko[0])) + [a for i, a in enumerate(arms) if i not in free]
        arms = [self.norm(o) for k, o in arms]
        if not any(arms):
            return sc
        return sc + [("match", tuple(arms))]

    def branch_ops(self, br, rest):
        c, t, el = br
        tt = self.ops(t) if t is not None else []
        ee = self.ops(el) if el is not None else []
        if rest is not None:
            tl, el_ = self.leaves(t), self.leaves(el)
            if tl and not el_:
                ee = ee + rest
            elif el_ and not tl:
                tt = tt + rest
        # `if let P = x { A } else { B }` is `match x { P => A, _ => B }`
        if c.get("k") == "LetExpr":
            k = self.arm_key(c["pat"])
            if k is not None:
                other = self.COMPLEMENT.get(k[0]) if len(k) == 1 else None
                return self.match_ops(self.ops(c["init"]), [(k, tt), ((other,) if other else None, ee)])
        ee_n = self.norm(ee)
        # `if a && b {T}` (nothing in the else branch) is `if a { if b {T} }`; `while a && b {..}` is `while a { if !b {break} .. }`
        conj = self.conjuncts(c)
        # ... and with an else branch E: `if a && b {T} else {E}` is `if a { if b {T} else {E} } else {E}`
        inner = list(self.norm(tt))
        for x in reversed(conj):
            vt = hir.variant_test(x)
            if vt is not None and self.ops(x) == self.ops(vt[0]):          # (a test that has its own op -- a slot test -- stays that op)
                # a variant test is a two-armed match on that value, however it is spelled (`matches!(x, P)`, `x.is_none()`, `x == E::V`)
                inner = self.variant_match(vt, inner, list(ee_n))
            else:
                inner = [("if", self.norm(self.ops(x)), self.norm(inner), ee_n)]
        return inner

    def variant_match(self, vt, yes, no):
        subj, var, pos = vt
        other = (self.COMPLEMENT[var],) if var in self.COMPLEMENT else None
        arms = [((var,), yes if pos else no), (other, no if pos else yes)]
        return self.match_ops(self.ops(subj), arms)

    def tuple_decision(self, e):
        """`match (a, b) { (P, Q) => A, _ => B }` with binding-free variant patterns is `if matches!(a, P) && matches!(b, Q) { A } else { B }`,
        i.e. the nest of two-armed matches that branch_ops builds for that condition; None for any other match"""
        q = e["arms"][0]["pat"] if len(e.get("arms", [])) == 2 else None
        while q is not None and q.get("k") in ("Ref", "Box", "Deref"):
            q = q["pat"]
        if q is None or q.get("k") != "Tuple" or strip(e["scrut"]).get("k") != "Tup":
            return None
        d = hir.decision(e)
        if d is None:
            return None
        tests, a_, b_ = d
        tested = {id(t[0]) for t in tests}
        pre = []
        for x in strip(e["scrut"])["elems"]:
            if id(x) not in tested:
                pre += self.ops(x)
        no = list(self.norm(self.ops(b_)))
        inner = list(self.norm(self.ops(a_)))
        for vt in reversed(tests):
            inner = self.variant_match(vt, inner, no)
        return pre + inner

    @staticmethod
    def conjuncts(c):
        c = strip(c)
        while c.get("k") == "DropTemps":
            c = strip(c["e"])
        if c.get("k") == "Binary" and c.get("op") in ("&&", "And"):
            return Skel.conjuncts(c["l"]) + Skel.conjuncts(c["r"])
        return [c]

    # ---- independent pure bindings are order-free -------------------------------------------------------------------------------------
    PURE_STD = {"chars", "count", "len", "clone", "to_owned", "to_string", "iter", "into_iter", "is_empty", "as_str", "as_ref", "as_slice", "deref",
                "unwrap_or", "unwrap_or_default", "ok_or", "ok", "map", "filter", "collect", "enumerate", "rev", "zip", "skip", "take", "cloned", "copied",
                "first", "last", "get", "contains", "starts_with", "ends_with", "new", "from", "into", "default", "format", "must_use", "new_v1",
                "new_const", "new_display", "new_debug", "Some", "Ok", "Err", "Box", "index", "branch", "from_residual", "from_output", "eq", "ne",
                "min", "max", "is_some", "is_none", "as_deref", "to_vec", "trim", "char_indices", "position", "find", "any", "all", "with_capacity"}

    def _mir_index(self):
        if not hasattr(self.f, "_norm_mir"):
            self.f._norm_mir = {self.f.norm(p): b for p, b in self.f.mir.items()}
        return self.f._norm_mir

    def pure(self, e):
        """no call in `e` can write anything its caller can see: crate functions without `&mut` parameter, std functions from PURE_STD; no assignment"""
        if e is None:
            return True
        for n in hir.walk(e):
            k = n.get("k")
            if k in ("Assign", "AssignOp", "Ret", "Break", "Continue", "Loop"):
                return False
            if k in ("Call", "MethodCall"):
                d = hir.callee(n)
                b = self._mir_index().get(self.f.norm(d)) if d else None
                if b is not None:
                    if any(b["locals"][i]["ty"].startswith("&mut") for i in range(1, b["arg_count"] + 1)):
                        return False
                    continue
                nm = hir.callee_name(n)
                if nm not in self.PURE_STD:
                    return False
                if k == "MethodCall" and nm in ("new", "from", "into", "default", "get", "find", "position", "any", "all", "map", "filter"):
                    pass
        return True

    def canon_order(self, stmts):
        """consecutive `let`s with pure, mutually independent initialisers commute: each run is put into a canonical order (dependencies
        first, ties broken by the statements' own skeleton), so exchanging two of them is not a skeleton difference"""
        def bound(p, acc):
            if p.get("k") == "Binding":
                acc.add(p.get("hid"))
                if p.get("sub"):
                    bound(p["sub"], acc)
            for key in ("pat",):
                if isinstance(p.get(key), dict):
                    bound(p[key], acc)
            for key in ("pats",):
                for q in p.get(key) or []:
                    bound(q, acc)
            for fd in p.get("fields") or []:
                if isinstance(fd, dict) and isinstance(fd.get("pat"), dict):
                    bound(fd["pat"], acc)
            return acc

        def used(e):
            return {n["path"].get("hid") for n in hir.walk(e) if n.get("k") == "Path" and n["path"].get("res") == "local"}

        def sort_run(run):
            if len(run) < 2:
                return run
            info = [(bound(s["pat"], set()), used(s["init"]), repr(self.norm(self.ops(s["init"])))) for s in run]
            done, order = set(), []
            while len(order) < len(run):
                ready = [i for i in range(len(run)) if i not in done and not any(j not in done and (info[j][0] & info[i][1]) for j in range(i))]
                i = min(ready, key=lambda x: (info[x][2], x))
                done.add(i)
                order.append(run[i])
            return order

        out, run = [], []
        for s in stmts:
            if s["k"] == "Let" and s.get("init") is not None and not s.get("els") and self.pure(s["init"]) \
                    and not (self.as_branch(s["init"]) and self.leaves(self.as_branch(s["init"])[1]) != self.leaves(self.as_branch(s["init"])[2])):
                run.append(s)
            else:
                out += sort_run(run) + [s]
                run = []
        return out + sort_run(run)

    def two_way(self, e):
        """(scrutinee, [(key, body), (key, body)]) of a two-armed `match` on plain variant patterns / an `if let P = x {A} else {B}`;
        else None.  Keys are variant-name tuples (the complement of Some/None/Ok/Err is known; an unknown complement is None = last)."""
        if e is None:
            return None
        e = strip(e)
        while e.get("k") == "DropTemps":
            e = strip(e["e"])
        if e.get("k") == "If" and strip(e["cond"]).get("k") == "LetExpr":
            c = strip(e["cond"])
            k = self.arm_key(c["pat"])
            if k is None:
                return None
            other = (self.COMPLEMENT[k[0]],) if len(k) == 1 and k[0] in self.COMPLEMENT else None
            return c["init"], [(k, e["then"]), (other, e.get("else"))]
        if e.get("k") == "Match" and len(e.get("arms", [])) == 2 and "Desugar" not in e.get("source", "") and "ForLoop" not in e.get("source", ""):
            if self.as_branch(e):
                return None
            ks = [self.arm_key(a["pat"], a.get("guard")) for a in e["arms"]]
            if ks[0] is None or (ks[1] is None and (e["arms"][1].get("guard") or e["arms"][1]["pat"].get("k") not in ("Wild", "Binding"))):
                return None
            if ks[1] is None and len(ks[0]) == 1 and ks[0][0] in self.COMPLEMENT:
                ks[1] = (self.COMPLEMENT[ks[0][0]],)
            return e["scrut"], [(ks[0], e["arms"][0]["body"]), (ks[1], e["arms"][1]["body"])]
        return None

    def two_way_ops(self, tw, rest):
        """like branch_ops for a two-way match: what follows goes into the continuing arm when exactly one arm leaves"""
        sc, arms = tw
        bodies = [self.ops(b) if b is not None else [] for k, b in arms]
        lv = [self.leaves(b) for k, b in arms]
        if rest is not None and lv[0] != lv[1]:
            bodies[1 if lv[0] else 0] = bodies[1 if lv[0] else 0] + rest
        return self.match_ops(self.ops(sc), [(arms[0][0], bodies[0]), (arms[1][0], bodies[1])])

    def fold_cond_temps(self, stmts):
        """`let c = <test>; if !c { break }` -> `if !(<test>) { break }`: a named temporary that is used once, as the condition of the very
        next statement, is read as that condition"""
        out, i = [], 0
        while i < len(stmts):
            s = stmts[i]
            nxt = stmts[i + 1] if i + 1 < len(stmts) else None
            if (s.get("k") == "Let" and s.get("init") is not None and not s.get("els") and s["pat"].get("k") == "Binding" and not s["pat"].get("sub")
                    and "Mut" not in (s["pat"].get("mode") or "").split(",")[-1] and nxt is not None and nxt.get("k") in ("Semi", "Expr")):
                e = strip(nxt["expr"])
                while e.get("k") == "DropTemps":
                    e = strip(e["e"])
                if e.get("k") == "If":
                    hid = s["pat"].get("hid")
                    uses = [n for n in hir.walk(self._fn_body) if n.get("k") == "Path" and n.get("path", {}).get("res") == "local" and n["path"].get("hid") == hid]
                    c, path = e["cond"], []
                    while True:
                        c = strip(c)
                        if c.get("k") == "DropTemps" or (c.get("k") == "Unary" and c.get("op") in ("!", "Not")):
                            path.append(c)
                            c = c["e"]
                            continue
                        break
                    if len(uses) == 1 and c.get("k") == "Path" and c.get("path", {}).get("hid") == hid:
                        new_c = s["init"]
                        for w in reversed(path):
                            new_c = dict(w, e=new_c)
                        out.append(dict(nxt, expr=dict(e, cond=new_c)))
                        i += 2
                        continue
            out.append(s)
            i += 1
        return out

    def block_ops(self, stmts, tail, ordered=False):
        out = []
        if not ordered:
            stmts = self.canon_order(self.fold_cond_temps(stmts))
        for i, s in enumerate(stmts):
            if s["k"] == "Let":
                br = self.as_branch(s.get("init")) if not s.get("els") else None
                if br and self.leaves(br[1]) != self.leaves(br[2]):
                    # `let x = match c { true => V, false => return .. };` == `if !c { return .. } let x = V;`
                    rest = self.block_ops(stmts[i + 1:], tail, True)
                    return out + self.branch_ops(br, rest)
                tw = self.two_way(s.get("init")) if not s.get("els") else None
                if tw and self.leaves(tw[1][0][1]) != self.leaves(tw[1][1][1]):
                    # `let x = match o { Some(v) => v, None => return .. };` == `let Some(x) = o else { return .. };`
                    rest = self.block_ops(stmts[i + 1:], tail, True)
                    return out + self.two_way_ops(tw, rest)
                if s.get("els") and s.get("init") is not None:
                    k = self.arm_key(s["pat"])
                    if k is not None:
                        other = (self.COMPLEMENT[k[0]],) if len(k) == 1 and k[0] in self.COMPLEMENT else None
                        rest = self.block_ops(stmts[i + 1:], tail, True)
                        return out + self.match_ops(self.ops(s["init"]), [(k, rest), (other, self.ops(s["els"]))])
                il = self.inlined_loop(s.get("init")) if self._depth == 1 and not s.get("els") else None
                if il is not None:
                    rest = self.block_ops(stmts[i + 1:], tail, True)
                    return out + self.loop_with_rest(il, rest, ret_too=True)
                out += self.ops(s.get("init"))
                ip = field_path(strip(s["init"])) if s.get("init") else None
                if ip and ip[0] in STATE_NAMES and ip[-1] in ("head", "len_env") and s["pat"]["k"] == "Binding" \
                        and s["pat"].get("hid") not in self.progress_only:
                    out.append(("snapshot", ".".join(("self",) + tuple(ip[1:]))))
                if s.get("els"):
                    out += [("else", self.norm(self.ops(s["els"])))]
            elif s["k"] in ("Semi", "Expr"):
                br = self.as_branch(s["expr"])
                if br and self.leaves(br[1]) != self.leaves(br[2]):
                    rest = self.block_ops(stmts[i + 1:], tail, True)
                    return out + self.branch_ops(br, rest)
                tw = self.two_way(s["expr"])
                if tw and self.leaves(tw[1][0][1]) != self.leaves(tw[1][1][1]):
                    rest = self.block_ops(stmts[i + 1:], tail, True)
                    return out + self.two_way_ops(tw, rest)
                lp = strip(s["expr"])
                if lp.get("k") == "Loop" and self._depth == 1:
                    rest = self.block_ops(stmts[i + 1:], tail, True)
                    return out + self.loop_with_rest(lp, rest)
                out += self.ops(s["expr"])
        lt = strip(tail) if tail is not None else None
        if lt is not None and lt.get("k") == "Loop" and self._depth == 1:
            return out + self.loop_with_rest(lt, [])
        out += self.ops(tail)
        return out

    def combinator(self, e, inner):
        """Option / Result combinators are two-armed matches on the receiver (arms in variant order: Err / None first, then Ok / Some):
        `r.map_err(|_| E)` / `o.ok_or_else(|| E)` / `o.ok_or(E)` / `r.or_else(|_| E)` / `o.unwrap_or_else(|| E)` = [E, ·];
        `o.map_or(D, |v| F)` / `map_or_else(|| D, |v| F)` = [D, F]; `o.map(|v| F)` / `and_then(|v| F)` on an Option / Result = [·, F].
        Returns the ops (inner + the match, or inner alone when no arm does anything) or None when `e` is no such combinator."""
        m = e["method"]
        args = e["args"]
        rty = (strip(e["recv"]).get("ty") or "")
        optres = rty.lstrip("&").startswith(("std::option::Option<", "std::result::Result<", "core::option::Option<", "core::result::Result<"))

        def body(a):
            a = strip(a)
            return self.norm(self.ops(a["body"])) if a.get("k") == "Closure" else self.norm(self.ops(a))
        if m in ("map_err", "or_else", "ok_or_else", "unwrap_or_else") and len(args) == 1 and strip(args[0]).get("k") == "Closure":
            arms = (body(args[0]), ())
        elif m in ("ok_or", "unwrap_or") and len(args) == 1 and optres:
            arms = (body(args[0]), ())
        elif m in ("map_or", "map_or_else") and len(args) == 2 and optres:
            arms = (body(args[0]), body(args[1]))
        elif m in ("map", "and_then") and len(args) == 1 and optres and strip(args[0]).get("k") == "Closure":
            arms = ((), body(args[0]))
        else:
            return None
        return inner + ([("match", arms)] if any(arms) else [])

    def ops(self, e):
        if e is None:
            return []
        e = strip(e)
        k = e["k"]
        if k == "Block":
            self._depth = getattr(self, "_depth", 0) + 1
            try:
                return self.block_ops(e["stmts"], e.get("expr"))
            finally:
                self._depth -= 1
        if k == "MethodCall":
            recv = strip(e["recv"])
            rp = field_path(recv)
            m = e["method"]
            inner = self.ops(e["recv"])
            cb_ = self.combinator(e, inner)
            if cb_ is not None:
                return cb_
            for a in e["args"]:
                if m in ITER_LOOPS and strip(a).get("k") == "Closure":
                    # `it.for_each(|x| B)` is `for x in it { B }`: the closure an iterator adaptor runs per element is a loop body
                    b_ = self.norm(self.ops(strip(a)["body"]))
                    inner += [("loop", b_)] if b_ else []
                else:
                    inner += self.ops(a)
            if rp and len(rp) == 1 and rp[0] in STATE_NAMES and m in CURSOR:
                return inner + [("cur", m) + tuple(argkey(a) for a in e["args"])]
            if rp and len(rp) == 1 and rp[0] in STATE_NAMES and m in TESTS:
                return inner + [("test", m) + tuple(argkey(a) for a in e["args"])]
            if rp and rp[-1] == "env" and rp[0] in STATE_NAMES and m in ("is_empty", "len"):
                return inner + [("test", "env." + m)]
            if rp and len(rp) >= 2 and rp[-2] == "mid_result" and m in SLOT_METHODS:
                return inner + [("slot", rp[-1], m)]
            if rp and len(rp) == 1 and m == "is_empty" and is_string_ty(recv.get("ty")) and recv["k"] == "Path":
                return inner + [("noprogress",)]
            if rp and len(rp) == 1 and m in BUFFER_METHODS and is_string_ty(recv.get("ty")):
                return inner + [("buf", m)]          # a local String being filled (by TYPE, not by the local's name)
            if m.startswith("is_") and (strip(e["recv"]).get("ty") or "") in ("char", "&char"):
                return inner + [("cls", m)]
            d = e.get("def") or ""
            if MOD in d and m in ("err", "parse_error"):
                return inner + [("err",)]          # building an error value consumes nothing: a marker, like `return` (however it is spelled:
                                                   # `self.err(..)`, `Err(self.parse_error(..))`, `.map_err(|_| self.parse_error(..))`)
            if MOD in d or m.startswith(LOCAL_PREFIXES):
                return inner + [("call", m) + tuple(argkey(a) for a in e["args"])]
            return inner
        if k == "Call":
            nm = hir.callee_name(e) or ""
            d = hir.callee(e) or ""
            inner = []
            for a in e["args"]:
                inner += self.ops(a)
            if nm == "Err" and len(e["args"]) == 1 and strip(e["f"]).get("k") == "Path" and strip(e["f"])["path"].get("defkind", "").startswith("Ctor"):
                return inner + [("err",)]
            if nm == "branch" and len(e["args"]) == 1:
                if strip(e["args"][0]).get("inlined_from"):
                    return inner          # `new_helper(..)?`: the helper's body stands here, its own returns are the exits
                return inner + [("?",)]
            if MOD in d and nm in ("err", "parse_error"):
                return inner + [("err",)]
            if (MOD in d and nm not in ("ok", "ok_consume", "err")) or nm.startswith(LOCAL_PREFIXES):
                return inner + [("call", nm) + tuple(argkey(a) for a in e["args"] if not (field_path(a) and len(field_path(a)) == 1 and field_path(a)[0] in STATE_NAMES))]
            return inner
        if k == "If":
            return self.branch_ops(self.as_branch(e), None)
        if k == "Match":
            sc = self.ops(e["scrut"])
            src = e.get("source", "")
            if "TryDesugar" in src:
                return sc            # `?`: the ("?",) marker was produced by the branch() call
            if "ForLoop" in src:
                old_ = getattr(self, "break_rest", None)
                self.break_rest = None
                try:
                    return self._for_ops(e, sc)
                finally:
                    self.break_rest = old_
            if False:
                # `for pat in it { BODY }` desugars to match into_iter(it) { mut iter => loop { match next(&mut iter) { None => break,
                # Some(pat) => BODY } } }: the loop body is BODY
                body = None
                for n in hir.walk(e["arms"][0]["body"]):
                    if n.get("k") == "Match" and n is not e:
                        for a in n["arms"]:
                            try:
                                if hir.pat_variants(a["pat"]) == {"Some"}:
                                    body = self.ops(a["body"])
                            except hir.Unrecognised:
                                pass
                        break
                if body is None:
                    body = []
                    for a in e["arms"]:
                        body += self.ops(a["body"])
                return sc + [("loop", self.norm(body))]
            # `match cond { true => A, false => B }` is the same production as `if cond { A } else { B }`
            br = self.as_branch(e)
            if br:
                return self.branch_ops(br, None)
            td = self.tuple_decision(e)
            if td is not None:
                return td
            arms = []
            for a in e["arms"]:
                g = self.ops(a["guard"]) if a.get("guard") else []
                arms.append((self.arm_key(a["pat"], a.get("guard")), g + self.ops(a["body"])))
            return self.match_ops(sc, arms)
        if k == "Loop":
            old_ = getattr(self, "break_rest", None)
            self.break_rest = None
            try:
                return [("loop", self.norm(self.ops(e["body"])))]
            finally:
                self.break_rest = old_
        if k == "Ret":
            rr_ = getattr(self, "ret_rest", None)
            return self.ops(e.get("e")) + (list(rr_) if rr_ is not None else [("ret",)])
        if k == "Break":
            # in a loop that is followed by REST up to the end of the function, `break` means "do REST and return" (see block_ops)
            br_ = getattr(self, "break_rest", None)
            return self.ops(e.get("e")) + (list(br_) if br_ is not None else [("break",)])
        if k == "Continue":
            return self.ops(e.get("e")) + [("continue",)]
        if k == "Binary":
            l, r = strip(e["l"]), strip(e["r"])
            # `buffer.len() == 0` is `buffer.is_empty()` (and `0 < buffer.len()` / `buffer.len() != 0` its negation)
            for a, b_, flip in ((l, r, False), (r, l, True)):
                if a["k"] == "MethodCall" and a["method"] == "len" and not a["args"] and strip(a["recv"])["k"] == "Path" and is_string_ty(strip(a["recv"]).get("ty")) \
                        and field_path(a["recv"]) and len(field_path(a["recv"])) == 1 and b_["k"] == "Lit" and b_["lit"].get("v") == 0:
                    if e["op"] in ("==", "Eq"):
                        return [("noprogress",)]
                    if e["op"] in ("!=", "Ne") or (e["op"] in ("<", "Lt") and flip) or (e["op"] in (">", "Gt") and not flip):
                        return [("noprogress",), ("not",)]
            out = self.ops(e["l"]) + self.ops(e["r"])
            # character-class tests of the scanners (`head_char() == '+'`) and progress tests on the cursor (`self.head == start`)
            for a, b_ in ((l, r), (r, l)):
                if b_["k"] == "Lit" and b_["lit"].get("lit") == "char":
                    out.append(("cmp", e["op"], repr(b_["lit"]["v"])))
                    break
            if e["op"] in ("&&", "||", "And", "Or") and out:
                out.append(("bool", "&&" if e["op"] in ("&&", "And") else "||"))
            fl, fr = field_path(l), field_path(r)
            for a, b_ in ((l, r), (r, l)):
                if a["k"] == "Path" and a["path"].get("hid") in self.progress_only and (field_path(b_) or ("",))[-1] == "head" and len(field_path(b_)) == 2 and field_path(b_)[0] in STATE_NAMES:
                    return out + ([("noprogress",)] if e["op"] in ("==", "Eq") else [("noprogress",), ("not",)])
            if (fl and fl[-1] in ("head", "len_env") and fl[0] in STATE_NAMES) or (fr and fr[-1] in ("head", "len_env") and fr[0] in STATE_NAMES):
                def side(fp_):
                    if not fp_:
                        return "<expr>"
                    return ".".join(("self",) + tuple(fp_[1:])) if fp_[0] in STATE_NAMES else "·"
                out.append(("cmpstate", e["op"], side(fl), side(fr)))
            return out
        if k == "Unary" and e.get("op") in ("!", "Not"):
            inner = self.ops(e.get("e"))
            return inner + ([("not",)] if inner else [])
        if k in ("Unary", "AddrOf", "Cast", "Field", "DropTemps"):
            return self.ops(e.get("e"))
        if k == "Assign" or k == "AssignOp":
            return self.ops(e.get("r")) + self.ops(e.get("l"))
        if k == "Index":
            return self.ops(e.get("e")) + self.ops(e.get("idx"))
        if k in ("Tup", "Array"):
            out = []
            for x in e["elems"]:
                out += self.ops(x)
            return out
        if k == "Struct":
            out = []
            for fd in e["fields"]:
                out += self.ops(fd["expr"])
            return out
        if k == "Closure":
            return self.ops(e["body"])
        if k == "LetExpr":
            return self.ops(e.get("init") or e.get("e"))
        return []

    def norm(self, ops):
        """drop empty control nodes, collapse repeated skip_spaces, drop trailing bare markers that carry no consumption"""
        out = []
        for o in ops:
            if o[0] == "if" and not o[1] and not o[2] and not o[3]:
                continue
            if o[0] in ("loop", "else") and not o[1]:
                continue
            if o[0] == "match" and not any(o[1]):
                continue
            if o == ("cur", "head_skip_spaces") and out and out[-1] == o:
                continue
            if o == ("err",) and out and out[-1] == o:
                continue            # `Err(self.parse_error(..))`: one error
            out.append(o)
        # markers only matter next to consumption: a list of nothing but ret/?/err markers is empty for our purposes
        if all(o[0] in ("ret", "?", "break", "continue") for o in out):        # ("err",) is NOT dropped: `return err` vs `return ok` must differ
            return tuple()
        return tuple(out)


def to_json(x):
    if isinstance(x, tuple):
        return [to_json(y) for y in x]
    return x


def diff(a, b, path="#"):
    """first difference between two skeletons (json form)"""
    if isinstance(a, list) and isinstance(b, list):
        for i in range(max(len(a), len(b))):
            if i >= len(a):
                return "%s[%d]: extra %s" % (path, i, json.dumps(b[i], ensure_ascii=False)[:120])
            if i >= len(b):
                return "%s[%d]: missing %s" % (path, i, json.dumps(a[i], ensure_ascii=False)[:120])
            d = diff(a[i], b[i], "%s[%d]" % (path, i))
            if d:
                return d
        return None
    if a != b:
        return "%s: expected %s, found %s" % (path, json.dumps(a, ensure_ascii=False)[:100], json.dumps(b, ensure_ascii=False)[:100])
    return None


PRIMITIVES = {"starts_with", "can_consume", "head_char", "head_move", "head_step", "head_step_one", "head_skip", "head_skip_and_spaces", "head_skip_after_spaces"}
# composite cursor helpers are expanded into the primitive sequence they stand for (so `head_skip_and_spaces(k)` == `head_skip(k); head_skip_spaces()`)
EXPAND = {"head_skip_and_spaces": lambda a: [["cur", "head_skip"] + a, ["cur", "head_skip_spaces"]],
          "head_skip_after_spaces": lambda a: [["cur", "head_skip_spaces"], ["cur", "head_skip"] + a]}


def expand(sk):
    if not isinstance(sk, list):
        return sk
    out = []
    for o in sk:
        if isinstance(o, list) and len(o) >= 2 and o[0] == "cur" and o[1] in EXPAND:
            out += EXPAND[o[1]](o[2:])
        elif isinstance(o, list):
            out.append(expand(o))
        else:
            out.append(o)
    # collapse repeated skip_spaces produced by the expansion
    res = []
    for o in out:
        if o == ["cur", "head_skip_spaces"] and res and res[-1] == o:
            continue
        res.append(o)
    # storing a parsed item in its result slot and moving the cursor touch different parts of the state: directly adjacent, they commute.
    # Canonical order: cursor moves first (`insert stamp; skip ']'` == `skip ']'; insert stamp`)
    changed = True
    while changed:
        changed = False
        for i in range(len(res) - 1):
            a, b = res[i], res[i + 1]
            if isinstance(a, list) and isinstance(b, list) and len(a) == 3 and a[0] == "slot" and a[2] == "insert" and b and b[0] == "cur":
                res[i], res[i + 1] = b, a
                changed = True
    return res


EMPTY = set()      # names of functions in scope whose skeleton is empty (set by extract_all)


def extract_all(facts):
    sk = Skel(facts)
    out = {}
    EMPTY.clear()
    for p, it in sorted(facts.hir.items()):
        if MOD not in p or it.get("body") is None or "::tests" in p or it["defkind"] not in ("Fn", "AssocFn"):
            continue
        if it["name"] in PRIMITIVES:
            continue            # their exact meaning is P-PRIM's / P-FULLMATCH's business
        s = expand(to_json(sk.of_fn(it)))
        if not s:
            EMPTY.add(it["name"])
        if s:
            key = it["name"]
            im = (it.get("impl") or {})
            st = im.get("self_ty") or ""
            if st:
                inner = st.split("Result<", 1)[1] if st.startswith("std::result::Result<") else st
                head = inner.split("<")[0].split(",")[0].strip()
                key = "%s::%s" % (head.rsplit("::", 1)[-1], it["name"])
            n, base = 2, key
            while key in out:
                key = "%s#%d" % (base, n)
                n += 1
            out[key] = (s, it)
    return out


def rule_P_PRIM(ctx):
    """exact meaning of the cursor primitives everything else is expressed in"""
    ctx.rule("P-PRIM", "cursor primitives of the enum parser have exactly their reviewed meaning: can_consume = head < len_env; head_char = env[head]; "
             "head_move(x): head = x; head_step(n): head += n; head_step_one = head_step(1); head_skip(s) = head_step(s.chars().count()); "
             "starts_with: false on the first differing char env[head + i] != c, true after the loop (length guard: P-FULLMATCH)")
    f = ctx.facts

    def fn(name):
        its = [it for p, it in f.hir.items() if it["name"] == name and MOD in p and "ParseState" in p]
        if len(its) != 1:
            from facts import AnchorMissing
            raise AnchorMissing("enum ParseState::%s" % name)
        ctx.fn(its[0])
        return its[0]

    def last(it):
        b_ = strip(it["body"])
        if b_["k"] == "Block" and not b_.get("expr") and len(b_["stmts"]) == 1 and b_["stmts"][0]["k"] in ("Semi", "Expr"):
            return strip(b_["stmts"][0]["expr"])
        return hir.last_expr(it["body"])
    b = last(fn("can_consume"))
    if b["k"] == "Binary" and b["op"] in (">", "Gt"):          # `len_env > head` is `head < len_env`
        b = dict(b, op="<", l=b["r"], r=b["l"])
    ctx.ob("P-PRIM", "can_consume = self.head < self.len_env", b["k"] == "Binary" and b["op"] in ("<", "Lt") and field_path(b["l"]) == ("self", "head")
           and field_path(b["r"]) == ("self", "len_env"), "")
    b = last(fn("head_char"))
    ctx.ob("P-PRIM", "head_char = self.env[self.head]", b["k"] == "Index" and field_path(b.get("e") or b.get("base")) == ("self", "env")
           and field_path(b["idx"]) == ("self", "head"), "")
    it = fn("head_move")
    b = last(it)
    pn = [p["name"] for p in it["params"] if p["k"] == "Binding" and p["name"] != "self"]
    ctx.ob("P-PRIM", "head_move(x): self.head = x", b["k"] == "Assign" and field_path(b["l"]) == ("self", "head") and field_path(b["r"]) == (pn[0],), "")
    it = fn("head_step")
    b = last(it)
    pn = [p["name"] for p in it["params"] if p["k"] == "Binding" and p["name"] != "self"]
    ctx.ob("P-PRIM", "head_step(n): self.head += n", b["k"] == "AssignOp" and b.get("op") in ("+", "+=", "Add", "AddAssign") and field_path(b["l"]) == ("self", "head")
           and field_path(b["r"]) == (pn[0],), "%s %s" % (b["k"], b.get("op")))
    b = last(fn("head_step_one"))
    ok = b["k"] == "MethodCall" and b["method"] == "head_step" and strip(b["args"][0])["k"] == "Lit" and strip(b["args"][0])["lit"]["v"] == 1
    ctx.ob("P-PRIM", "head_step_one = head_step(1)", ok, "")
    it = fn("head_skip")
    b = last(it)
    pn = [p["name"] for p in it["params"] if p["k"] == "Binding" and p["name"] != "self"]
    ok = b["k"] == "MethodCall" and b["method"] == "head_step"
    if ok:
        a = strip(b["args"][0])
        ok = a["k"] == "MethodCall" and a["method"] == "count" and strip(a["recv"])["k"] == "MethodCall" and strip(a["recv"])["method"] == "chars" \
            and field_path(strip(a["recv"])["recv"]) == (pn[0],)
    ctx.ob("P-PRIM", "head_skip(s) = head_step(s.chars().count())", ok, "")
    # the composite skips every production is expressed in (P-SKELETON expands them at their call sites): exactly these two calls, in order
    for nm, want in (("head_skip_and_spaces", [("head_skip", True), ("head_skip_spaces", False)]),
                     ("head_skip_after_spaces", [("head_skip_spaces", False), ("head_skip", True)])):
        it = fn(nm)
        pn = [p["name"] for p in it["params"] if p["k"] == "Binding" and p["name"] != "self"]
        calls = [c for c in hir.find_calls(it["body"]) if c.get("k") == "MethodCall" and field_path(c["recv"]) == ("self",)]
        got = [(c["method"], bool(c["args"]) and field_path(c["args"][0]) == (pn[0],)) for c in calls] if len(pn) == 1 else None
        others = [n for n in hir.walk(it["body"]) if n.get("k") in ("If", "Match", "Loop", "Ret", "Assign", "AssignOp")]
        ctx.ob("P-PRIM", "%s(s) = %s" % (nm, "; ".join("%s(%s)" % (m, "s" if a else "") for m, a in want)), got == want and not others,
               "calls %s" % (got,))
    it = fn("starts_with")
    rets = [n for n in hir.walk(it["body"]) if n.get("k") == "Ret"]
    tail = last(it)
    # some `if self.env[self.head + i] != c { return false }` inside the loop
    cmp_ok = False
    for n in hir.walk(it["body"]):
        if n.get("k") == "If":
            c = strip(n["cond"])
            if c["k"] == "Binary" and c["op"] in ("!=", "Ne"):
                l = strip(c["l"])
                if l["k"] == "Index" and field_path(l.get("e") or l.get("base")) == ("self", "env"):
                    ix = strip(l["idx"])
                    if ix["k"] == "Binary" and ix["op"] in ("+", "Add") and field_path(ix["l"]) == ("self", "head"):
                        r_ = [x for x in hir.walk(n["then"]) if x.get("k") == "Ret"]
                        if r_ and all(strip(x["e"])["k"] == "Lit" and strip(x["e"])["lit"]["v"] is False for x in r_):
                            cmp_ok = True
    all_false = all(x.get("e") and strip(x["e"])["k"] == "Lit" and strip(x["e"])["lit"]["v"] is False for x in rets)
    ctx.ob("P-PRIM", "starts_with: returns false on the first differing char, true otherwise", cmp_ok and all_false and tail["k"] == "Lit" and tail["lit"]["v"] is True,
           "mismatch test found: %s; every early return is false: %s; tail: %s" % (cmp_ok, all_false, tail.get("lit", {}).get("v") if tail["k"] == "Lit" else tail["k"]))


def rule_P_SKELETON(ctx, floor=30):
    ctx.rule("P-SKELETON", "consumption skeleton of every enum-parser function (keyword tests, skips, sub-parser calls with their keyword arguments, "
             "result-slot accesses, with branch structure, in evaluation order) equals the reviewed grammar production of that function")
    try:
        ref = json.load(open(TABLE, encoding="utf-8"))["skeletons"]
    except OSError:
        from facts import AnchorMissing
        raise AnchorMissing("checks/tables/parser_skeletons.json")
    got = extract_all(ctx.facts)
    ctx.floor("enum-parser functions with a consumption skeleton", len(got), floor)
    # a reviewed function that is gone (merged into a new helper, inlined into its caller) is inlined into the REFERENCES of its callers:
    # an argument-less `call <removed>` in a reviewed production stands for the removed function's own reviewed production
    gone = {}
    for name in set(ref) - set(got):
        short = name.rsplit("::", 1)[-1]
        if short not in EMPTY:
            gone[short] = None if short in gone else ref[name]["skeleton"]
    gone = {k: v for k, v in gone.items() if v is not None}

    def expand_removed(node, depth=0):
        if not isinstance(node, list) or depth > 40:
            return node
        if node and isinstance(node[0], str):
            return [node[0]] + [expand_removed(x, depth + 1) for x in node[1:]]
        out = []
        for x in node:
            if isinstance(x, list) and len(x) == 2 and x[0] == "call" and x[1] in gone:
                out.extend(expand_removed(gone[x[1]], depth + 1))
            else:
                out.append(expand_removed(x, depth + 1))
        return out
    for name, (s, it) in sorted(got.items()):
        ctx.fn(it)
        r = ref.get(name)
        if r is not None and gone:
            r = {"skeleton": expand_removed(r["skeleton"])}
        site = "%s:%s" % (it["span"]["file"], it["span"]["line"])
        if r is None:
            # a function added next to the reviewed ones is not evidence against the property (control: a new unrelated API); it is listed
            ctx.extra.setdefault("unreviewed_new_functions", []).append(name)
            continue
        d = diff(r["skeleton"], s)
        if d is not None and name.endswith("::transform_mid_result"):
            # proof beats reference: this function's production IS the kind decision table; when K-KIND proves the table on the paths of the
            # MIR body (props/c15.kind_by_paths) the spelling of the decision is free
            import c15
            proof, _why = c15.kind_by_paths(ctx, it)
            if proof:
                ctx.ob("P-SKELETON", name + " (decision table proven by path evaluation)", True, "", site)
                continue
        ctx.ob("P-SKELETON", name, d is None, d or "", site)
    for name in sorted(set(ref) - set(got)):
        if name.rsplit("::", 1)[-1] in EMPTY:
            ctx.ob("P-SKELETON", name, False, "the function no longer consumes anything (its reviewed production is gone)")
        else:
            # the function itself is gone (inlined into its caller, renamed): not a violation by itself -- every caller is compared with
            # its own reviewed production, which names the callee
            ctx.extra.setdefault("reviewed_functions_removed", []).append(name)
    ctx.sample({"rule": "P-SKELETON", "functions": len(got), "example": {"consume_truth": got.get("consume_truth", ([], None))[0]}})


if __name__ == "__main__":
    import sys
    sys.path[:0] = [os.path.join(os.path.dirname(os.path.dirname(os.path.abspath(__file__))), "lib")]
    import facts
    f = facts.load()
    got = extract_all(f)
    out = {"_doc": "Reviewed consumption skeletons (grammar productions) of the enum parser's functions; regenerate with "
                   "`python3 checks/rules/pskel.py > checks/tables/parser_skeletons.json` and REVIEW the diff.",
           "skeletons": {k: {"skeleton": v[0]} for k, v in sorted(got.items())}}
    print(json.dumps(out, ensure_ascii=False, indent=1))
