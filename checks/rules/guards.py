"""Symbolic operand expressions and dominating-guard signatures of MIR sites (P-GUARD).

Expressions are structural and binder-name independent:
  a<i>            argument i (with .field projections)
  f(x, y)         call of item `f`
  Op(x, y)        MIR binary operation
  φ(d1|d2|..)     a local with several definitions (loop variables): the set of its defining expressions, self reference = ·
  discr(x)        enum discriminant
A guard is `<expr> = <edge value>` for a SwitchInt in a dominator whose taken edge is forced on the way to the site."""
import mir

MAXD = 7
COPY_HOPS_FREE = True
CLOSURE_NEUTRAL = True


class Sym:
    def __init__(self, body):
        self.b = body
        self.g = mir.cfg(body)
        self.cache = {}

    def place(self, pl, depth=0, stack=()):
        proj = list(pl["proj"])
        l = pl["local"]
        # projection out of a tuple/array aggregate built from known operands: take the component
        while True:
            ds = self.g.defs.get(l, []) if not (1 <= l <= self.b["arg_count"]) else []
            fi = next((i for i, e in enumerate(proj) if e["k"] != "Deref"), None)
            if len(ds) == 1 and ds[0][2]["k"] == "Aggregate" and ds[0][2].get("agg") == "Tuple" and fi is not None and proj[fi]["k"] == "Field":
                o = ds[0][2]["ops"][proj[fi]["idx"]]
                if o["k"] in ("Copy", "Move"):
                    l = o["place"]["local"]
                    proj = list(o["place"]["proj"]) + proj[fi + 1:]
                    continue
            if len(ds) == 1 and ds[0][2]["k"] in ("Ref", "CopyForDeref") and fi is not None:
                inner = ds[0][2]["place"]
                l = inner["local"]
                proj = list(inner["proj"]) + proj
                continue
            break
        base = self.local(l, depth, stack)
        s = base
        for e in proj:
            k = e["k"]
            if k == "Field":
                if CLOSURE_NEUTRAL and str(e.get("of", "")).startswith("{closure@"):
                    # captured variable of a closure: by its type, not by its position in the capture list (which changes with the captures)
                    import re as _re
                    s = "%s.up:%s" % (s, _re.sub(r"[A-Za-z_0-9]+::", "", str(e.get("ty", "?"))))
                else:
                    s = "%s.%s" % (s, e["name"])
            elif k == "Downcast":
                s = "%s@%s" % (s, e["variant"])
            elif k == "Index":
                s = "idx(%s,%s)" % (s, self.local(e["local"], depth + 1, stack))
            elif k == "ConstantIndex":
                s = "%s[%d]" % (s, e["offset"])
            elif k == "Deref":
                pass
            else:
                s = "%s.<%s>" % (s, k)
        return s

    def local(self, l, depth=0, stack=()):
        b = self.b
        if 1 <= l <= b["arg_count"]:
            return "a%d" % l
        if l in stack:
            return "·"
        if depth > MAXD:
            return "…"
        ds = self.g.defs.get(l, [])
        if not ds:
            # closure captured upvars etc.
            return "u%d" % l if False else "?"
        exprs = []
        if len(ds) == 1:
            # plain copies / reborrows / casts are not structure: a named temporary must not change the elision depth
            hop = 0 if (COPY_HOPS_FREE and ds[0][2]["k"] in ("Use", "Ref", "CopyForDeref", "RawPtr", "Cast")) else 1
            return self.rvalue(ds[0][2], depth + hop, stack + (l,))
        inloop = self.loop_blocks()
        alts = []
        for d in ds:
            e = self.rvalue(d[2], depth + 1, stack + (l,))
            gs = None
            if d[0] not in inloop and depth <= 2 and not getattr(self, "_noannot", 0):
                self._noannot = 1
                try:
                    gs = set("%s=%s" % g for g in self.guards(d[0]))
                finally:
                    self._noannot = 0
            alts.append((e, gs))
        if any("·" in e for e, gs in alts):
            alts = [(e, None) for e, gs in alts]   # loop-carried variable: no per-alternative guards
        common = None
        for e, gs in alts:
            if gs is not None:
                common = gs if common is None else (common & gs)
        for e, gs in alts:
            if gs is not None and (gs - (common or set())):
                e = "%s[%s]" % (e, ";".join(sorted(gs - (common or set()))))
            exprs.append(e)
        exprs = sorted(set(exprs))
        return "φ(%s)" % "|".join(exprs)

    def operand(self, o, depth=0, stack=()):
        k = o["k"]
        if k in ("Copy", "Move"):
            return self.place(o["place"], depth, stack)
        if k == "Const":
            if "fn" in o:
                return "fn:" + o["fn"]["name"]
            if "v" in o:
                if isinstance(o["v"], bool):
                    return "true" if o["v"] else "false"
                if isinstance(o["v"], str) and len(o["v"]) != 1:
                    return "str"      # message texts are not part of a signature
                return repr(o["v"])
            if "unevaluated" in o:
                return "const:" + o["unevaluated"].rsplit("::", 1)[-1]
            return "const"
        return k

    def rvalue(self, rv, depth=0, stack=()):
        k = rv["k"]
        if k == "Use":
            return self.operand(rv["op"], depth, stack)
        if k in ("Ref", "CopyForDeref", "RawPtr"):
            return self.place(rv["place"], depth, stack)
        if k == "Cast":
            return self.operand(rv["op"], depth, stack)
        if k == "BinaryOp":
            op = rv["op"].replace("WithOverflow", "").replace("Unchecked", "")
            l, r = self.operand(rv["l"], depth, stack), self.operand(rv["r"], depth, stack)
            if CANON and op in ("Add", "Mul", "BitAnd", "BitOr", "BitXor", "Eq", "Ne"):
                # commutative: a numeric constant goes to the right, otherwise the operands are ordered (`n + self.head` == `self.head + n`)
                if (_isnum(l) and not _isnum(r)) or (not _isnum(l) and not _isnum(r) and r < l):
                    l, r = r, l
            return "%s(%s,%s)" % (op, l, r)
        if k == "UnaryOp":
            return "%s(%s)" % (rv["op"], self.operand(rv["e"], depth, stack))
        if k == "Discriminant":
            return "discr(%s)" % self.place(rv["place"], depth, stack)
        if k == "Aggregate":
            h = rv.get("agg")
            if h == "Closure" and CLOSURE_NEUTRAL:
                return "closure"          # what a closure captures is not part of an operand's identity
            if h == "Adt":
                h = rv["adt"].rsplit("::", 1)[-1]
                if rv["variant"] != h:
                    h += "::" + rv["variant"]
            return "%s{%s}" % (h, ",".join(self.operand(o, depth, stack) for o in rv["ops"]))
        if k == "CallResult":
            t = rv["term"]
            nm = mir.callee_name(t) or "call"
            return "%s(%s)" % (nm, ",".join(self.operand(a, depth, stack) for a in t["args"]))
        return k

    def loop_blocks(self):
        if not hasattr(self, "_lb"):
            lb = set()
            for h, blocks, tails in self.g.loops():
                lb |= blocks
            self._lb = lb
        return self._lb

    def mentions(self, o, depth=0, seen=None):
        """multi-definition locals an operand's expression depends on"""
        seen = set() if seen is None else seen
        out = set()
        if o["k"] not in ("Copy", "Move"):
            return out
        return self._mentions_place(o["place"], depth, seen)

    def _mentions_place(self, pl, depth, seen):
        out = set()
        for e in pl["proj"]:
            if e["k"] == "Index":
                out |= self._mentions_local(e["local"], depth + 1, seen)
        out |= self._mentions_local(pl["local"], depth, seen)
        return out

    def _mentions_local(self, l, depth, seen):
        if 1 <= l <= self.b["arg_count"] or l in seen or depth > MAXD:
            return set()
        seen.add(l)
        ds = self.g.defs.get(l, [])
        out = set()
        if len(ds) > 1:
            out.add(l)
        for d in ds:
            rv = d[2]
            if rv["k"] == "CallResult":
                for a in rv["term"]["args"]:
                    out |= self.mentions(a, depth + 1, seen)
            else:
                for o in mir._operands(rv):
                    out |= self.mentions(o, depth + 1, seen)
                if rv["k"] in ("Ref", "CopyForDeref", "RawPtr", "Discriminant"):
                    out |= self._mentions_place(rv["place"], depth + 1, seen)
        return out

    def live_guards(self, bi):
        """forced guards at block bi whose loop-carried operands are not redefined between the branch and the site"""
        g = self.g
        out = []
        for (e, val, d, s, discr) in self._guards_full(bi):
            ms = self.mentions(discr)
            stale = False
            if ms:
                between = g.reachable_from(s, avoid=(d,))
                between = set(x for x in between if x == bi or bi in g.reachable_from(x, avoid=(d,)))
                for l in ms:
                    for (db, si, rv) in g.defs.get(l, []):
                        if db in between and not (db == bi and si == "term"):
                            stale = True
            if not stale:
                out.append((e, val))
        return out

    # ------------------------------------------------------------------
    def guards(self, bi):
        return [(e, v) for (e, v, d, s, discr) in self._guards_full(bi)]

    def _guards_full(self, bi):
        """forced branch conditions on the way to block bi: [(expr, value)]"""
        g = self.g
        out = []
        doms = sorted(d for d in g.dom.get(bi, ()) if d != bi)
        for d in doms:
            t = self.b["blocks"][d]["term"]
            if t["k"] != "SwitchInt":
                continue
            succ = list(dict.fromkeys([x[1] for x in t["targets"]] + [t["otherwise"]]))
            # successors from which bi is reachable without going back through d
            via = [s for s in succ if s == bi or bi in g.reachable_from(s, avoid=(d,))]
            if len(via) != 1:
                continue
            s = via[0]
            vals = [v for v, tb in t["targets"] if tb == s]
            e = self.operand(t["discr"], 0, ())
            if vals:
                val = "|".join(str(v) for v in vals)
            else:
                val = "not(%s)" % ",".join(str(v) for v, _ in t["targets"])
            # booleans
            dl = t["discr"]["place"]["local"] if t["discr"]["k"] in ("Copy", "Move") else None
            if dl is not None and self.b["locals"][dl]["ty"] == "bool":
                val = {"0": "false", "not(0)": "true", "1": "true", "not(1)": "false"}.get(val, val)
            e, val = normalise_guard(e, val)
            out.append((e, val, d, s, t["discr"]))
        return out

    def assert_guards(self, bi):
        """Assert terminators that dominate bi (their success is established too)"""
        return []


def site_operands(sym, t):
    """operand expressions of interest of a panic site"""
    if t["k"] == "Assert":
        m = t["msg"]
        if m["k"] == "BoundsCheck":
            return {"index": sym.operand(m["index"]), "len": sym.operand(m["len"])}
        if m["k"] == "Overflow":
            return {"l": sym.operand(m["l"]), "r": sym.operand(m["r"]), "op": m["op"]}
        return {}
    if t["k"] == "Call":
        return {"args": [sym.operand(a) for a in t["args"]]}
    return {}


CANON = True      # canonical comparison guards (see canon_guard)


def _split(e):
    """`Op(a,b)` -> (Op, [a, b]) at the top level, else None"""
    import re
    m = re.match(r"^([A-Za-z]+)\((.*)\)$", e)
    if not m:
        return None
    body, args, depth, cur = m.group(2), [], 0, ""
    for ch in body:
        if ch in "([{":
            depth += 1
        elif ch in ")]}":
            depth -= 1
            if depth < 0:
                return None
        if ch == "," and depth == 0:
            args.append(cur)
            cur = ""
        else:
            cur += ch
    args.append(cur)
    return m.group(1), args


def _isnum(x):
    return x.lstrip("-").isdigit()


def canon_guard(e, val):
    """one spelling per comparison, so that `a < b` / `b > a` / `!(a >= b)` / `if !(..)` with exchanged branches are the same forced guard:
    Not(E)=v -> E=!v;  Ne -> Eq negated;  Gt(a,b) -> Lt(b,a);  Ge(a,b) -> Le(b,a);  a numeric constant goes to the right
    (Lt(c,x)=v -> Le(x,c)=!v, Le(c,x)=v -> Lt(x,c)=!v);  between two non-constants only Lt is used (Le(a,b)=v -> Lt(b,a)=!v);
    Eq has its operands ordered."""
    if val not in ("true", "false"):
        return e, val
    neg = {"true": "false", "false": "true"}
    for _ in range(8):
        sp = _split(e)
        if not sp:
            break
        op, a = sp
        if op == "Not" and len(a) == 1:
            e, val = a[0], neg[val]
            continue
        if len(a) != 2:
            break
        l, r = a
        if op == "Ne":
            e, val = "Eq(%s,%s)" % (l, r), neg[val]
            continue
        if op == "Gt":
            e = "Lt(%s,%s)" % (r, l)
            continue
        if op == "Ge":
            e = "Le(%s,%s)" % (r, l)
            continue
        if op == "Eq":
            if (_isnum(l) and not _isnum(r)) or (not _isnum(l) and not _isnum(r) and r < l):
                e = "Eq(%s,%s)" % (r, l)
            break
        if op in ("Lt", "Le"):
            if _isnum(l) and not _isnum(r):
                e, val = "%s(%s,%s)" % ("Le" if op == "Lt" else "Lt", r, l), neg[val]
            elif not _isnum(r) and op == "Le":
                e, val = "Lt(%s,%s)" % (r, l), neg[val]
            break
        break
    return e, val


def normalise_guard(e, val):
    if CANON:
        e, val = canon_guard(e, val)
    return _normalise_len(e, val)


def _normalise_len(e, val):
    """`x.len() == 0`, `x.len() != 0`, `x.len() > 0`, `0 < x.len()` are the same test as `x.is_empty()`"""
    import re
    m = re.match(r"^(Eq|Ne|Gt|Lt|Ge|Le)\(len\((.*)\),0\)$", e)
    if m and val in ("true", "false"):
        op, x, v = m.group(1), m.group(2), val == "true"
        empty = {"Eq": v, "Ne": not v, "Gt": not v, "Le": v}.get(op)
        if empty is not None:
            return "is_empty(%s)" % x, "true" if empty else "false"
    m = re.match(r"^(Lt|Ge)\(len\((.*)\),1\)$", e)
    if m and val in ("true", "false"):
        op, x, v = m.group(1), m.group(2), val == "true"
        empty = v if op == "Lt" else not v
        return "is_empty(%s)" % x, "true" if empty else "false"
    m = re.match(r"^Le\(len\((.*)\),0\)$", e)
    if m and val in ("true", "false"):
        return "is_empty(%s)" % m.group(1), val
    m = re.match(r"^Lt\(0,len\((.*)\)\)$", e)
    if m and val in ("true", "false"):
        return "is_empty(%s)" % m.group(1), "false" if val == "true" else "true"
    return e, val
