"""M-* rules: keyword <-> constructor maps of formatter, parser, fold; symbolic
evaluation of constructors (M-CTOR)."""
import hir
from hir import Unrecognised, strip, callee, callee_name, field_path
from facts import AnchorMissing

TERM_ADT = "enum_narsese::term::structs::Term"


def try_inner(e):
    """`x?` desugars to match Try::branch(x) {Break(r)=>return from_residual(r), Continue(v)=>v}"""
    e = strip(e)
    if e["k"] == "Match" and "TryDesugar" in e.get("source", ""):
        s = strip(e["scrut"])
        if s["k"] == "Call" and callee(s) == "std::ops::Try::branch":
            return s["args"][0]
    return None


def vec_macro_elems(e):
    """`vec![a, b]` (any std expansion) -> [a, b]; `vec![]`/`Vec::new()` -> []"""
    e = strip(e)
    if e["k"] == "Call":
        c = callee(e) or ""
        if c in ("std::vec::Vec::<T>::new", "alloc::vec::Vec::<T>::new") and not e["args"]:
            return []
        if c.startswith("std::boxed::") or c.startswith("alloc::") or c.startswith("std::slice::") or "into_vec" in c:
            arrs = [x for x in hir.walk(e) if x.get("k") == "Array"]
            if len(arrs) == 1:
                return arrs[0]["elems"]
    return None


ID_METHODS = {"std::convert::Into::into", "std::string::ToString::to_string", "std::borrow::ToOwned::to_owned",
              "std::clone::Clone::clone", "std::convert::From::from", "std::iter::IntoIterator::into_iter"}
ID_CALLS = {"std::boxed::Box::<T>::new", "std::prelude::v1::Some", "std::prelude::v1::Ok", "std::convert::From::from",
            "std::string::String::from"}


class CtorEval:
    """symbolic evaluation of straight-line constructor functions to trees:
       ('param', i) | ('ctor', Variant, [args]) | ('list', [elems]) | ('coll', 'set'|'vec', arg) | ('lit', v)
       | ('opaque', text)"""

    def __init__(self, facts, adt=TERM_ADT):
        self.f = facts
        self.adt = adt
        self.cache = {}
        self.effects = {}   # fn path -> list of (callee path) executed for effect (e.g. test_term_vec_for_image)

    def ret_kind(self, path):
        m = self.f.mir.get(path)
        if not m:
            return None
        t = m["locals"][0]["ty"]
        if "HashSet<" in t and "Term" in t:
            return "set"
        if t.startswith("std::vec::Vec<") and "Term" in t:
            return "vec"
        return None

    def eval_fn(self, path, args, depth=0):
        it = self.f.hir.get(path)
        if it is None or depth > 6:
            return ("opaque", path)
        env = {}
        for i, p in enumerate(it["params"]):
            if p["k"] != "Binding":
                return ("opaque", path)
            env[p["name"]] = args[i] if i < len(args) else ("param", i)
        try:
            return self.eval(it["body"], env, depth, path)
        except Unrecognised:
            rk = self.ret_kind(path)
            if rk:
                # container conversion: which argument is the element source? the one that is a list/param of iterable type
                src = [a for a in args if a[0] in ("list", "param", "coll", "local", "try", "opaque")]
                return ("coll", rk, src[-1] if src else ("opaque", "?"))
            return ("opaque", path)

    def eval(self, e, env, depth, owner):
        e = strip(e)
        k = e["k"]
        if k == "Block":
            env = dict(env)
            for s in e["stmts"]:
                if s["k"] == "Let" and s["pat"]["k"] == "Binding" and s.get("init") is not None and not s.get("els"):
                    env[s["pat"]["name"]] = self.eval(s["init"], env, depth, owner)
                elif s["k"] == "Let" and s["pat"]["k"] == "Tuple" and s.get("init") is not None and not s.get("els") \
                        and all(q.get("k") == "Binding" for q in s["pat"]["pats"]):
                    # `let (a, b) = (x, y);` / `let (a, b) = helper(..)?;` with the helper's `Ok((x, y))` inlined
                    v = self.eval(s["init"], env, depth, owner)
                    tries = 0
                    while v[0] == "try":
                        v = v[1]
                        tries += 1
                    if v[0] != "tuple" or len(v[1]) != len(s["pat"]["pats"]):
                        raise Unrecognised("tuple binding of a non-tuple value", s)
                    for q, x in zip(s["pat"]["pats"], v[1]):
                        for _ in range(tries):
                            x = ("try", x) if x[0] != "try" else x
                        env[q["name"]] = x
                elif s["k"] in ("Semi", "Expr"):
                    x = strip(s["expr"])
                    if x["k"] == "MethodCall" and x["method"] in ("extend", "push", "insert", "append", "for_each", "try_for_each", "extend_from_slice") \
                            and strip(x["recv"])["k"] in ("Path", "MethodCall"):
                        # a container being filled statement by statement (`vec.extend(src)`, `src.into_iter().for_each(|t| { set.insert(t); })`):
                        # same treatment as the `for` loop form -- the function is a container conversion (see eval_fn)
                        raise Unrecognised("container filled by a statement", x)
                    if x["k"] in ("Call", "MethodCall"):
                        self.effects.setdefault(owner, []).append((callee(x), [self.try_eval(a, env, depth, owner) for a in hir.call_args(x)]))
                    else:
                        raise Unrecognised("statement in constructor body", x)
                elif s["k"] == "Item":
                    pass
                else:
                    raise Unrecognised("statement in constructor body", s)
            if e.get("expr") is None:
                raise Unrecognised("constructor body without value", e)
            return self.eval(e["expr"], env, depth, owner)
        if k == "Lit":
            return ("lit", e["lit"]["v"])
        if k == "Tup":
            return ("tuple", [self.eval(x, env, depth, owner) for x in e["elems"]])
        if k == "AddrOf" or (k == "Unary" and e["op"] == "*"):
            return self.eval(e["e"], env, depth, owner)
        t = try_inner(e)
        if t is not None:
            return ("try", self.eval(t, env, depth, owner))
        if k == "Path":
            p = e["path"]
            if p.get("res") == "local":
                if p["name"] in env:
                    return env[p["name"]]
                return ("local", p["name"])
            if p.get("res") == "def" and p.get("defkind", "").startswith("Ctor") and self.adt in (p.get("parent") or ""):
                return ("ctor", hir.variant_of(p), [])
            if p.get("res") == "def" and p.get("defkind") == "Variant":
                return ("ctor", hir.variant_of(p), [])
            return ("opaque", p.get("def") or p.get("text"))
        if k == "Struct":
            p = e["path"]
            if self.adt in (p.get("def") or ""):
                return ("ctor", hir.variant_of(p), [self.eval(f["expr"], env, depth, owner) for f in e["fields"]])
            raise Unrecognised("struct literal", e)
        if k == "MethodCall":
            if e.get("def") in ID_METHODS and not e["args"]:
                return self.eval(e["recv"], env, depth, owner)
            args = [self.try_eval(a, env, depth, owner) for a in hir.call_args(e)]
            if e.get("def") in self.f.hir:
                return self.eval_fn(e["def"], args, depth + 1)
            return ("call", e.get("def") or e["method"], args)
        if k == "Call":
            v = vec_macro_elems(e)
            if v is not None:
                return ("list", [self.eval(x, env, depth, owner) for x in v])
            f = strip(e["f"])
            if f["k"] == "Path":
                p = f["path"]
                if p.get("res") == "def" and p.get("defkind", "").startswith("Ctor"):
                    if self.adt in (p.get("parent") or ""):
                        return ("ctor", hir.variant_of(p), [self.eval(a, env, depth, owner) for a in e["args"]])
                    if p["def"] in ID_CALLS or hir.variant_of(p) in ("Some", "Ok"):
                        return self.eval(e["args"][0], env, depth, owner)
                if p.get("res") == "def":
                    c = p["def"]
                    if c in ID_CALLS and len(e["args"]) == 1:
                        return self.eval(e["args"][0], env, depth, owner)
                    args = [self.try_eval(a, env, depth, owner) for a in e["args"]]
                    if c in self.f.hir:
                        return self.eval_fn(c, args, depth + 1)
                    return ("call", c, args)
                if p.get("res") == "local":
                    # closure call
                    args = [self.try_eval(a, env, depth, owner) for a in e["args"]]
                    return ("call", "closure:" + p["name"], args)
            raise Unrecognised("call shape", e)
        raise Unrecognised("expression %s in constructor" % k, e)

    def try_eval(self, e, env, depth, owner):
        try:
            return self.eval(e, env, depth, owner)
        except Unrecognised:
            return ("opaque", "expr")


def tree_s(t):
    if t[0] == "ctor":
        return "%s(%s)" % (t[1], ", ".join(tree_s(a) for a in t[2]))
    if t[0] == "param":
        return "$%d" % t[1]
    if t[0] == "list":
        return "[%s]" % ", ".join(tree_s(a) for a in t[1])
    if t[0] == "coll":
        return "%s{%s}" % (t[1], tree_s(t[2]))
    if t[0] == "lit":
        return repr(t[1])
    if t[0] == "try":
        return tree_s(t[1]) + "?"
    if t[0] == "call":
        return "%s(%s)" % (t[1].rsplit("::", 1)[-1], ", ".join(tree_s(a) for a in t[2]))
    if t[0] == "local":
        return t[1]
    return "<%s>" % (t[1],)


def root_variant(t):
    while t and t[0] == "try":
        t = t[1]
    if t and t[0] == "ctor":
        return t[1]
    return None


def snake(v):
    out = ""
    for i, c in enumerate(v):
        if c.isupper() and i:
            out += "_"
        out += c.lower()
    return out


def term_variants(facts):
    adt = facts.adts.get(TERM_ADT)
    if adt is None:
        raise AnchorMissing("enum Term")
    return [v["name"] for v in adt["variants"]]


def rule_M_CTOR(ctx):
    """every primary constructor new_<snake(V)> builds root variant V from its parameters in order"""
    ctx.rule("M-CTOR", "symbolic evaluation of Term::new_* bodies: new_<snake(V)> builds variant V with its parameters in "
             "positional order (container helpers are transparent)")
    f = ctx.facts
    ev = CtorEval(f)
    ctors = {}
    for path, it in f.hir.items():
        imp = it.get("impl") or {}
        if it["defkind"] == "AssocFn" and imp.get("self_ty") == TERM_ADT and not imp.get("trait") and \
                (it["name"].startswith("new_") or it["name"].startswith("to_image_")):
            n = len(it["params"])
            t = ev.eval_fn(path, [("param", i) for i in range(n)])
            ctors[it["name"]] = (path, t, n)
            ctx.fn(it)
    vs = term_variants(f)
    ctx.floor("Term variants", len(vs), 30)
    for v in vs:
        name = "new_" + snake(v)
        if name not in ctors:
            ctx.ob("M-CTOR", "%s exists" % name, False, "no constructor for variant %s" % v)
            continue
        path, t, n = ctors[name]
        ok = t[0] == "ctor" and t[1] == v
        if ok:
            # params appear in order, each once
            flat = []

            def params(x):
                if x[0] == "param":
                    flat.append(x[1])
                elif x[0] == "ctor":
                    for a in x[2]:
                        params(a)
                elif x[0] == "coll":
                    params(x[2])
                elif x[0] == "list":
                    for a in x[1]:
                        params(a)
            params(t)
            ok = flat == list(range(n))
        ctx.ob("M-CTOR", name, ok, "evaluates to %s" % tree_s(t), "%s:%s" % (f.hir[path]["span"]["file"], f.hir[path]["span"]["line"]))
        ctx.sample({"rule": "M-CTOR", "ctor": name, "tree": tree_s(t)})
    return ev, ctors


# ----------------------------------------------------------------------------
def chain_links(ctx, rule, fn_item, chain_expr, test_name, subject=None):
    """decode a first-match chain whose links test one table field each.
    Returns [(field_path_tuple, branch_expr, cond_expr)], else_expr.
    test_name: method that performs the test ('starts_with' / 'eq')"""
    links, els = hir.if_chain(chain_expr)
    out = []
    for cond, br in links:
        c = strip(cond)
        fp = None
        if c["k"] in ("MethodCall", "Call") and callee_name(c) == test_name:
            args = hir.call_args(c)
            if len(args) == 2:
                if subject is not None:
                    s = field_path(args[0])
                    if s is None and strip(args[0])["k"] == "Tup":
                        s = tuple(field_path(x)[0] if field_path(x) else None for x in strip(args[0])["elems"])
                    if s != subject:
                        ctx.unrecognised(rule, fn_item["name"], "chain link tests %s, expected %s" % (s, subject))
                        continue
                fp = field_path(args[1])
        if fp is None:
            ctx.unrecognised(rule, fn_item["name"], "chain link condition is not `%s(<table field>)`" % test_name,
                             "%s:%s" % (fn_item["span"]["file"], c.get("line")))
            continue
        out.append((fp, br, c))
    return out, els


def find_chains(fn_item, test_name, min_links=2):
    """all maximal if-chains in a function whose first link tests via test_name"""
    found = []
    seen = set()
    for n in hir.walk(fn_item["body"]):
        if n.get("k") == "If" and id(n) not in seen:
            links, els = hir.if_chain(n)
            # mark nested else-ifs as seen
            e = n
            while e and e.get("k") == "If":
                seen.add(id(e))
                e = strip(e["else"]) if e.get("else") else None
            c = strip(links[0][0])
            if c["k"] in ("MethodCall", "Call") and callee_name(c) == test_name and len(links) >= min_links:
                found.append(n)
    return found


def table_field(fp):
    """('self','format','compound','connecter_x') / ('folder','compound','connecter_x') -> 'compound.connecter_x';
    trailing tuple index kept: 'compound.brackets.0'"""
    if fp is None:
        return None
    parts = list(fp)
    # drop receiver prefix up to the format object
    for i, p in enumerate(parts):
        if p in ("space", "atom", "compound", "statement", "sentence", "task"):
            if i == len(parts) - 1:
                return None          # a bare local / struct field that happens to be called `sentence` or `task` is not a table field
            return ".".join(parts[i:])
    return None


# ----------------------------------------------------------------------------
# M-PARSE
RECV_ID = {"ok_or", "ok_or_else", "transform_err", "map_err", "expect", "unwrap"}
SKIP_FAMILY = {"head_skip", "head_skip_and_spaces", "head_skip_after_spaces"}


def enum_parser_fn(ctx, name):
    it = ctx.facts.hir_fn(name, module="impl_enum::parser")
    ctx.fn(it)
    return it


def first_skip_field(fn_item):
    """table field named by the first head_skip-family call (or the bracket args of parse_term_set) in a function body"""
    for n in hir.walk(fn_item["body"]):
        if n.get("k") in ("MethodCall", "Call"):
            nm = callee_name(n)
            if nm in SKIP_FAMILY:
                return table_field(field_path(hir.call_args(n)[1])), None
            if nm == "parse_term_set":
                a = hir.call_args(n)
                return table_field(field_path(a[2])), table_field(field_path(a[3]))
    return None, None


def branch_skip_fields(br):
    out = []
    for n in hir.walk(br):
        if n.get("k") in ("MethodCall", "Call") and callee_name(n) in SKIP_FAMILY:
            out.append(table_field(field_path(hir.call_args(n)[1])))
    return out


def branch_value(br):
    """value expression of a chain branch: tail of its (nested) block; `return ...` detected"""
    b = strip(br)
    while b["k"] == "Block":
        if b.get("expr") is None:
            # statement-only block: maybe ends with return
            if b["stmts"] and b["stmts"][-1]["k"] in ("Semi", "Expr"):
                b = strip(b["stmts"][-1]["expr"])
                continue
            return b
        b = strip(b["expr"])
    return b


def eval_branch(ev, br, owner):
    """evaluate the value of a branch with let-bindings of the enclosing blocks inside the branch"""
    b = strip(br)
    try:
        v = branch_value(b)
        if v["k"] == "Ret":
            return ("reject",)
        return simplify(ev.eval(b, {}, 0, owner))
    except Unrecognised as u:
        return ("opaque", u.what)


def simplify(t):
    """drop result/option plumbing: recv-identity method calls"""
    if t[0] == "call" and t[1].rsplit("::", 1)[-1] in RECV_ID and t[2]:
        return simplify(t[2][0])
    if t[0] == "try":
        return ("try", simplify(t[1]))
    if t[0] == "ctor":
        return ("ctor", t[1], [simplify(a) for a in t[2]])
    if t[0] == "coll":
        return ("coll", t[1], simplify(t[2]))
    if t[0] == "list":
        return ("list", [simplify(a) for a in t[1]])
    return t


class ParserMaps:
    """field -> constructor tree for each first-match chain of the enum parser"""

    def __init__(self, ctx, ev):
        self.ctx, self.ev = ctx, ev
        self.term = {}      # table field -> tree
        self.order = {}     # chain name -> [fields in test order]
        self.punct = {}
        self.stamp = {}
        self.skip_ok = []
        self._atom()
        self._compound()
        self._statement()
        self._term_dispatch()
        self._punct()
        self._stamp()

    def _chain(self, fname, nth=0, min_links=2):
        it = enum_parser_fn(self.ctx, fname)
        chains = find_chains(it, "starts_with", min_links)
        if len(chains) <= nth:
            raise AnchorMissing("first-match chain #%d in %s" % (nth, fname))
        links, els = chain_links(self.ctx, "M-PARSE", it, chains[nth], "starts_with")
        self.order[fname] = [table_field(fp) or ("local:" + ".".join(fp)) for fp, _, _ in links]
        return it, links, els

    def _check_skip(self, fname, fld, br):
        sk = branch_skip_fields(br)
        if sk:
            self.ctx.ob("M-SKIP", "%s %s" % (fname, fld), sk[0] == fld,
                        "tests keyword %s but skips %s" % (fld, sk[0]))

    def _atom(self):
        it, links, els = self._chain("parse_atom")
        for fp, br, c in links:
            fld = table_field(fp)
            self._check_skip("parse_atom", fld, br)
            self.term[fld] = eval_branch(self.ev, br, it["path"])

    def _compound(self):
        it, links, els = self._chain("parse_compound")
        for fp, br, c in links:
            fld = table_field(fp)
            self._check_skip("parse_compound", fld, br)
            t = eval_branch(self.ev, br, it["path"])
            if fld and fld.startswith("atom."):
                self.compound_reject = (fld, t)
                continue
            self.term[fld] = t

    def _statement(self):
        it, links, els = self._chain("parse_statement")
        self.statement_fn = it
        # the subject operand: the first binding initialised from parse_term (by role, whatever the local is called)
        subj = [s_ for s_ in strip(it["body"])["stmts"] if s_["k"] == "Let" and s_["pat"]["k"] == "Binding" and s_.get("init") is not None
                and hir.find_calls(s_["init"], "parse_term")]
        self.subject_name = subj[0]["pat"]["name"] if subj else "subject"
        for fp, br, c in links:
            fld = table_field(fp)
            self._check_skip("parse_statement", fld, br)
            self.term[fld] = eval_branch(self.ev, br, it["path"])

    def _term_dispatch(self):
        it, links, els = self._chain("parse_term")
        self.dispatch = {}
        for fp, br, c in links:
            fld = table_field(fp)
            v = branch_value(br)
            if v["k"] != "MethodCall" or v["args"] or field_path(v["recv"]) != ("self",):
                self.ctx.unrecognised("M-PARSE", "parse_term", "dispatch branch for %s is not a self method call" % fld)
                continue
            target = self.ctx.facts.hir.get(v.get("def"))
            if target is None:
                raise AnchorMissing("dispatch target %s" % v.get("def"))
            self.ctx.fn(target)
            first, second = first_skip_field(target)
            self.ctx.ob("M-SKIP", "parse_term %s -> %s" % (fld, target["name"]), first == fld,
                        "dispatches on %s but %s first skips %s" % (fld, target["name"], first))
            if second is not None:
                want = fld[:-2] + ".1" if fld.endswith(".0") else None
                self.ctx.ob("M-SKIP", "parse_term %s -> %s closing" % (fld, target["name"]), second == want,
                            "closing bracket %s, expected %s" % (second, want))
            self.dispatch[fld] = target["name"]
            if fld.startswith("compound.brackets_set_"):
                base = fld[:-2]
                self.term[base] = simplify(self.ev.eval_fn(target["path"], [("param", 0)]))
        v = branch_value(els) if els else None
        self.dispatch_else = callee_name(v) if v and v["k"] == "MethodCall" else None

    def _punct(self):
        it, links, els = self._chain("consume_punctuation")
        pev = CtorEval(self.ctx.facts, "enum_narsese::sentence::punctuation::Punctuation")
        for fp, br, c in links:
            fld = table_field(fp)
            v = branch_value(br)
            target = self.ctx.facts.hir.get(v.get("def")) if v["k"] == "MethodCall" else None
            if target is None:
                # the helper is written in place (or is a new, inlined helper `consume_punctuation_as(keyword, punctuation)`): the branch itself
                # skips the keyword and stores the punctuation; its parameters are lets, read through
                env_ = hir.let_env(br)
                br2 = hir.through_lets(br, env_)
                sk = branch_skip_fields(br2)
                ins = [n for n in hir.find_calls(br2, "insert") if (field_path(hir.call_args(n)[0]) or ("",))[-1] == "punctuation"]
                if len(sk) != 1 or len(ins) != 1:
                    self.ctx.unrecognised("M-PARSE", "consume_punctuation", "branch for %s is not a method call" % fld)
                    continue
                self.ctx.ob("M-SKIP", "consume_punctuation %s" % fld, sk[0] == fld, "dispatches on %s but skips %s" % (fld, sk[0]))
                self.punct[fld] = root_variant(pev.try_eval(hir.call_args(ins[0])[1], {}, 0, it["path"]))
                continue
            self.ctx.fn(target)
            first, _ = first_skip_field(target)
            self.ctx.ob("M-SKIP", "consume_punctuation %s -> %s" % (fld, target["name"]), first == fld,
                        "dispatches on %s but skips %s" % (fld, first))
            ins = [n for n in hir.find_calls(target["body"], "insert") if (field_path(hir.call_args(n)[0]) or ("",))[-1] == "punctuation"]
            if len(ins) != 1:
                self.ctx.unrecognised("M-PARSE", target["name"], "expected exactly one insert into the punctuation slot")
                continue
            self.punct[fld] = root_variant(pev.try_eval(hir.call_args(ins[0])[1], {}, 0, target["path"]))

    def _stamp(self):
        it, links, els = self._chain("consume_stamp")
        sev = CtorEval(self.ctx.facts, "enum_narsese::sentence::stamp::Stamp")
        for fp, br, c in links:
            fld = table_field(fp)
            self._check_skip("consume_stamp", fld, br)
            t = eval_branch(sev, br, it["path"])
            self.stamp[fld] = root_variant(t)
        self.stamp_fn = it


class FoldMaps:
    def __init__(self, ctx, ev):
        self.ctx, self.ev = ctx, ev
        self.term = {}
        self.order = {}
        f = ctx.facts
        # the value each first-match chain compares, by PARAMETER POSITION: fold_atom(folder, prefix, name), fold_compound(folder, connecter,
        # terms), fold_statement(folder, subject, copula, predicate), fold_set(folder, left, right, terms)
        for fname, spos, arity in (("fold_atom", (1,), 3), ("fold_compound", (1,), 3), ("fold_statement", (2,), 4), ("fold_set", (1, 2), 4)):
            it = f.hir_fn(fname, module="lexical_fold::impl_enum")
            ctx.fn(it)
            pnames = [p_.get("name") for p_ in it["params"]]
            if len(pnames) != arity:
                raise AnchorMissing("%s with %d parameters" % (fname, arity))
            subject = tuple(pnames[i] for i in spos)
            chains = find_chains(it, "eq", 2)
            if len(chains) != 1:
                raise AnchorMissing("first-match chain in %s (%d found)" % (fname, len(chains)))
            links, els = chain_links(ctx, "M-FOLD", it, chains[0], "eq", subject)
            self.order[fname] = []
            # parameters of the fold function are the symbolic operands
            env = {p["name"]: ("param", i) for i, p in enumerate(it["params"]) if p["k"] == "Binding"}
            self.params = getattr(self, "params", {})
            self.params[fname] = [p.get("name") for p in it["params"]]
            for fp, br, c in links:
                fld = table_field(fp)
                self.order[fname].append(fld)
                try:
                    v = branch_value(br)
                    t = ("reject",) if v["k"] == "Ret" else simplify(ev.eval(strip(br), dict(env), 0, it["path"]))
                except Unrecognised as u:
                    t = ("opaque", u.what)
                self.term[fld] = t
            v = branch_value(els) if els else None
            ctx.ob("M-FOLD", "%s unknown keyword rejected" % fname, v is not None and v["k"] == "Ret",
                   "the final else of the chain must return Err")


def rule_K_COPULAS(ctx):
    """the copula look-ahead list of the enum format = every copula field of the statement section, each exactly once"""
    ctx.rule("K-COPULAS", "NarseseFormat::copulas() (the look-ahead list that terminates atom names) enumerates every `copula_*` field of "
             "NarseseFormatStatement exactly once -- sibling of the parse_statement chain and of the struct definition")
    f = ctx.facts
    it = f.hir_fn("copulas", module="impl_enum::format")
    ctx.fn(it)
    arr = [n for n in hir.walk(it["body"]) if n.get("k") == "Array"]
    if len(arr) != 1:
        ctx.unrecognised("K-COPULAS", "copulas", "body is not a single array literal")
        return
    got = [table_field(field_path(x)) for x in arr[0]["elems"]]
    adt = f.adts.get("conversion::string::impl_enum::format::NarseseFormatStatement")
    if adt is None:
        raise AnchorMissing("NarseseFormatStatement")
    want = sorted("statement." + fd["name"] for fd in adt["variants"][0]["fields"] if fd["name"].startswith("copula_"))
    ctx.floor("copula fields", len(want), 13)
    for w in want:
        ctx.ob("K-COPULAS", w, got.count(w) == 1, "appears %d times in the look-ahead list %s" % (got.count(w), [g for g in got if got.count(g) > 1][:2]))
    ctx.ob("K-COPULAS", "no foreign entries", all(g in want for g in got), "%s" % [g for g in got if g not in want])


def _mentions(node, local):
    if isinstance(node, dict):
        if "local" in node and "proj" in node and node["local"] == local:
            return True
        return any(_mentions(v, local) for v in node.values())
    if isinstance(node, list):
        return any(_mentions(v, local) for v in node)
    return False


def _only_zero_tested(b, local, depth):
    """every use of `local` is a comparison with the constant 0 (or a plain copy into a local of which the same holds)"""
    if depth > 3:
        return False
    used = False
    for bl in b["blocks"]:
        if bl["cleanup"]:
            continue
        for s in bl["stmts"]:
            if s["k"] != "Assign":
                if _mentions(s, local) and not s["k"].startswith("Storage"):
                    return False
                continue
            if _mentions(s["place"], local) and s["place"]["local"] == local and not s["place"]["proj"]:
                return False          # written again
            rv = s["rv"]
            if not _mentions(rv, local):
                continue
            used = True
            if rv["k"] == "Use" and rv["op"]["k"] in ("Copy", "Move") and not rv["op"]["place"]["proj"] and not s["place"]["proj"]:
                if not _only_zero_tested(b, s["place"]["local"], depth + 1):
                    return False
                continue
            if rv["k"] == "BinaryOp" and rv["op"] in ("Eq", "Ne", "Lt", "Le", "Gt", "Ge"):
                sides = [rv["l"], rv["r"]]
                other = [o for o in sides if not _mentions(o, local)]
                mine = [o for o in sides if _mentions(o, local)]
                if len(other) == 1 and len(mine) == 1 and not mine[0]["place"]["proj"] and other[0]["k"] == "Const" and str(other[0].get("v")) in ("0", "0_usize"):
                    continue
            return False
        t = bl["term"]
        if t["k"] == "Call":
            if _mentions(t["args"], local) or (t["dest"]["local"] == local and t["dest"]["proj"]):
                return False
        elif _mentions({k_: v for k_, v in t.items() if k_ not in ("line", "exp")}, local):
            return False
    return used


def rule_U_CHARS(ctx, modules=("impl_lexical::parser", "impl_enum::parser")):
    """borders into the char environment are char counts"""
    import mir as M
    ctx.rule("U-CHARS", "the parse environments are char vectors, so every border is a char count: no byte length (`str::len`, `String::len`) "
             "is taken anywhere in the parser modules (keyword lengths go through chars().count())")
    f = ctx.facts
    n = 0
    bad = []
    for p, b in f.mir.items():
        if not any(m in p for m in modules):
            continue
        n += 1
        for bi, t in M.cfg(b).calls("len"):
            cp = M.callee_path(t) or ""
            if cp.startswith("core::str::") or cp.startswith("std::string::String::"):
                # `buffer.len() == 0` is `buffer.is_empty()`: a byte length that is only compared with zero is no border
                if not t["dest"]["proj"] and _only_zero_tested(b, t["dest"]["local"], 0):
                    continue
                bad.append((b, t))
    ctx.floor("parser functions scanned for byte lengths", n, 25)
    for b, t in bad:
        ctx.ob("U-CHARS", "%s takes a byte length" % b["name"], False, "`%s` at line %s: byte length used where char counts are required (non-ASCII keywords)" % (M.callee_path(t), t["line"]),
               "%s:%s" % (b["span"]["file"], t["line"]))
    if not bad:
        ctx.ob("U-CHARS", "no byte length taken in %s" % "/".join(m.split("::")[0] for m in modules), True)


# ----------------------------------------------------------------------------
# O-ORDER: components travel through formatter, parser, fold and accessors in their stored order
ORDER_MODULES = ("conversion::", "enum_narsese::term", "lexical::term", "api::data_structure::term")
ORDER_HARD = {"rev", "sort", "sort_by", "sort_by_key", "sort_by_cached_key", "sort_unstable", "sort_unstable_by", "sort_unstable_by_key", "reverse", "swap",
              "swap_remove", "rotate_left", "rotate_right", "next_back", "rfold", "rposition", "rfind", "last", "sorted", "rsplit", "rsplitn"}
ORDER_SOFT = {"dedup", "dedup_by", "dedup_by_key", "retain", "retain_mut", "skip", "step_by", "take", "take_while", "skip_while", "filter", "filter_map",
              "drain", "split_off", "truncate", "pop", "remove", "insert", "nth", "chain", "zip", "flat_map", "flatten", "cycle", "extend_from_within"}
# reviewed sites where an element is taken out / put in on purpose: (function, method) -> (count, reason)
ORDER_EXCEPTIONS = {
    ("extract_terms", "insert"): (1, "puts the image placeholder back at its recorded index (K-COMPONENTS / K-IMAGEITER check the index)"),
    ("parse_compound", "pop"): (3, "takes the one / two operands of negation and the differences out of the parsed list (A-ARITY checks the count, M-CTOR the operand order)"),
    ("parse_terms_with_image", "remove"): (1, "removes the first placeholder, the rest keeps its order (I-INDEX)"),
}


def _seq_of_terms(ty):
    seq = any(m in ty for m in ("std::vec::Vec<", "[", "std::slice::Iter", "std::vec::IntoIter", "std::iter::", "std::collections::VecDeque"))
    if not seq or "HashSet" in ty or "HashMap" in ty or ty.lstrip("&mut ").startswith("std::option::Option"):
        return False
    return "Term" in ty or "Vec<std::string::String>" in ty or "IntoIter<std::string::String>" in ty or "Iter<'_, std::string::String>" in ty \
        or "Item = std::string::String" in ty


def order_sites(facts, modules=ORDER_MODULES):
    """[(function name, path, method, line, receiver type, hard?)] of order-changing calls in the component pipeline"""
    import mir as M
    out = []
    for p, b in sorted(facts.mir.items()):
        if not any(m in p for m in modules) or "::tests" in p or "::test" in p:
            continue
        g = M.cfg(b)
        for bi, t in g.calls():
            if b["blocks"][bi]["cleanup"] or not t["args"]:
                continue
            nm = M.callee_name(t)
            if nm not in ORDER_HARD and nm not in ORDER_SOFT:
                continue
            a0 = t["args"][0]
            ty = b["locals"][a0["place"]["local"]]["ty"] if a0["k"] in ("Copy", "Move") else ""
            cp = M.callee_path(t) or ""
            if nm in ORDER_HARD:
                # any sequence / iterator / string: reversing or sorting characters of a name is as wrong as reordering components
                if any(m in (ty + cp) for m in ("Vec", "[", "Iter", "iter::", "Chars", "str", "String", "slice")) and "Option" not in ty.split("<")[0]:
                    out.append((b["name"], p, nm, t["line"], ty, True))
            elif _seq_of_terms(ty):
                out.append((b["name"], p, nm, t["line"], ty, False))
    return out


def rule_O_ORDER(ctx):
    ctx.rule("O-ORDER", "components (and the strings rendered from them) travel through formatters, templates, both parsers, the fold and the "
             "accessors in their stored order: inside the component pipeline modules no sequence is reversed / sorted / rotated (any "
             "sequence, any element type), and no sequence of terms or rendered strings has elements dropped, inserted or skipped, except "
             "the reviewed sites (image placeholder insert / remove, operand pops of the fixed-arity compounds)")
    sites = order_sites(ctx.facts)
    used = {}
    n_fn = sum(1 for p in ctx.facts.mir if any(m in p for m in ORDER_MODULES))
    ctx.floor("functions scanned by O-ORDER", n_fn, 200)
    for fn, p, nm, line, ty, hard in sites:
        exc = ORDER_EXCEPTIONS.get((fn, nm))
        if exc is not None and not hard:
            used[(fn, nm)] = used.get((fn, nm), 0) + 1
            continue
        ctx.ob("O-ORDER", "%s: %s on %s" % (fn, nm, ty[:60]), False,
               "%s a sequence in the component pipeline: ordered compounds, images and statements lose their component order or a component"
               % ("reorders" if hard else "drops / inserts / skips elements of"), "%s:%s" % (ctx.facts.mir[p]["span"]["file"], line))
    for key, (cnt, why) in sorted(ORDER_EXCEPTIONS.items()):
        ctx.ob("O-ORDER", "reviewed site %s.%s x%d" % (key[0], key[1], cnt), used.get(key, 0) == cnt,
               "expected %d such call(s), found %d (%s)" % (cnt, used.get(key, 0), why))
    if not [s for s in sites if ORDER_EXCEPTIONS.get((s[0], s[2])) is None or s[5]]:
        ctx.ob("O-ORDER", "no other order-changing call on a component sequence", True)
    ctx.sample({"rule": "O-ORDER", "functions_scanned": n_fn, "reviewed_sites": {"%s.%s" % k: v[1] for k, v in ORDER_EXCEPTIONS.items()}})


def rule_M_BINFILL(ctx):
    """parse_compound fills the two operands of the binary compounds from the END of the parsed list: last parsed -> second field"""
    ctx.rule("M-BINFILL", "enum parse_compound, binary arm (differences): the pattern binds (first, second) in field order and the body assigns "
             "`*second = terms.pop()` before `*first = terms.pop()` -- the last parsed component becomes the second operand")
    pc = enum_parser_fn(ctx, "parse_compound")
    found = False
    for n in hir.walk(pc["body"]):
        if n.get("k") != "Match":
            continue
        for a in n["arms"]:
            pats = hir.flatten_or(a["pat"])
            vs = set()
            for q in pats:
                while q["k"] in ("Ref", "Box", "Deref"):
                    q = q["pat"]
                if q["k"] == "TupleStruct":
                    vs.add(hir.variant_of(q["path"]))
            if "DifferenceExtension" not in vs:
                continue
            found = True
            ok_binds = True
            names = None
            for q in pats:
                while q["k"] in ("Ref", "Box", "Deref"):
                    q = q["pat"]
                b = hir.pat_bindings(q)
                if names is None:
                    names = b
                ok_binds = ok_binds and b == names and len(b) == 2
            order = []
            for x in hir.walk(a["body"]):
                if x.get("k") == "Assign":
                    l = strip(x["l"])
                    while l["k"] == "Unary":
                        l = strip(l["e"])
                    if l["k"] == "MethodCall" and l["method"] in ("as_mut", "deref_mut") and field_path(l["recv"]):
                        pops = hir.find_calls(x["r"], "pop")
                        if pops:
                            order.append(field_path(l["recv"])[0])
            ctx.ob("M-BINFILL", "parse_compound binary arm %s" % sorted(vs)[:2], ok_binds and names is not None and order == [names[1], names[0]],
                   "bindings %s (same in every alternative: %s); pop targets in order %s" % (names, ok_binds, order))
    if not found:
        raise AnchorMissing("parse_compound arm for the differences")
