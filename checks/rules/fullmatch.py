"""P-FULLMATCH: keyword recognisers on the char environment must be *full* matches.

`nar_dev_utils::StartsWithStr::starts_with_str` on `[char]` (src/str_processing/x_fix_match/std_boost.rs, pinned 0.42.3)
iterates over the *slice* and compares with the needle's chars; when the slice runs out first it returns `true`.  So it is
true not only when the needle is a prefix of the slice but also when the (non-empty) slice is a proper prefix of the needle.
A parser that takes its `true` as "the keyword is here" and then advances by the keyword length leaves the environment
(lexical parser: panic, defect D10) or sees a keyword in the last characters of a name (enum parser: defect D9).

Rule: every call of starts_with_str in the crate is the right operand of `len(X) >= N.chars().count() && X.starts_with_str(N)`
with the same X and N.  The dictionary matchers (`match_prefix_char_slice` -> `char_slice_has_prefix` =
`String::from_iter(slice).starts_with(prefix)`) are full matches by their pinned source and are not restricted."""
import hir, deps
from hir import strip

DEP_FILES = ["src/str_processing/x_fix_match/std_boost.rs", "src/str_processing/char_slices.rs", "src/str_processing/x_fix_match/traits.rs"]
WEAK = "StartsWithStr::starts_with_str"


def _norm(e):
    """strip &, *, no-statement blocks"""
    e = strip(e)
    while e["k"] == "AddrOf" or (e["k"] == "Unary" and e.get("op") in ("*", "Deref")):
        e = strip(e["e"])
    return e


def same(a, b):
    a, b = _norm(a), _norm(b)
    pa, pb = hir.field_path(a), hir.field_path(b)
    if pa and pb:
        return pa == pb
    if a["k"] != b["k"]:
        return False
    if a["k"] == "Index":
        return same(a.get("base") or a.get("e"), b.get("base") or b.get("e")) and hir_text(a["idx"]) == hir_text(b["idx"])
    return hir_text(a) == hir_text(b)


def hir_text(e):
    import hirpp
    try:
        return hirpp.expr(e)
    except Exception:
        return repr(sorted(e.keys()))


def is_len_of(e, x):
    e = _norm(e)
    return e["k"] == "MethodCall" and e["method"] == "len" and (e.get("def") or "").endswith("::len") and same(e["recv"], x)


def is_char_count_of(e, n):
    e = _norm(e)
    if not (e["k"] == "MethodCall" and e["method"] == "count" and (e.get("def") or "").endswith("Iterator::count")):
        return False
    c = _norm(e["recv"])
    return c["k"] == "MethodCall" and c["method"] == "chars" and (c.get("def") or "").endswith("str>::chars") and same(c["recv"], n)


def length_guard(cond, x, n):
    c = _norm(cond)
    if c["k"] != "Binary":
        return False
    op = c["op"]
    if op in (">=", "Ge"):
        return is_len_of(c["l"], x) and is_char_count_of(c["r"], n)
    if op in ("<=", "Le"):
        return is_char_count_of(c["l"], n) and is_len_of(c["r"], x)
    return False


def weak_calls(facts):
    """[(item, call node, guarded?)] for every starts_with_str call in the crate"""
    out = []
    for path, it in sorted(facts.hir.items()):
        body = it.get("body")
        if body is None:
            continue
        nodes = list(hir.walk(body))
        calls = [n for n in nodes if n.get("k") == "MethodCall" and (n.get("def") or "").endswith(WEAK)]
        if not calls:
            continue
        ands = [n for n in nodes if n.get("k") == "Binary" and n.get("op") in ("&&", "And")]
        env_ = hir.let_env(body)          # `let needle_len = needle.chars().count(); needle_len <= env.len() && ..` reads like the direct form
        for c in calls:
            x, n = c["recv"], c["args"][0]
            ok = any(_norm(a["r"]) is c and (length_guard(a["l"], x, n) or length_guard(hir.through_lets(a["l"], env_), hir.through_lets(x, env_), hir.through_lets(n, env_)))
                     for a in ands)
            out.append((path, it, c, ok))
    return out


def rule_P_FULLMATCH(ctx, floor=2):
    ctx.rule("P-FULLMATCH", "keyword recognition on the char environment is a full match: nar_dev_utils' [char]::starts_with_str also answers true "
             "for a slice that ends inside the needle (pinned source, hash asserted), so each of its calls must be the right operand of "
             "`X.len() >= N.chars().count() && X.starts_with_str(N)`; the dictionary matchers are full matches by their pinned source")
    deps.require_nar_dev_utils(ctx, DEP_FILES)
    sites = weak_calls(ctx.facts)
    for path, it, c, ok in sites:
        ctx.fn(it)
        nm = path.rsplit("::", 1)[-1] if "{closure" not in path else path.rsplit("::", 2)[-2]
        key = "%s: starts_with_str(%s, %s)" % (it.get("name") or nm, hir_text(_norm(c["recv"])), hir_text(_norm(c["args"][0])))
        ctx.ob("P-FULLMATCH", key, ok, "not guarded by `len >= needle.chars().count() &&`: a slice that ends inside the keyword is accepted as the keyword "
               "(end of input: name cut short / border beyond the environment)", "%s:%s" % (it["span"]["file"], c.get("line")))
    ctx.floor("starts_with_str call sites", len(sites), floor)
    # the enum parser's own recogniser: ParseState::starts_with(keyword) must answer false when fewer characters remain than the keyword
    # has (seed c01-e rewrote it with `zip`, which stops at the shorter side and accepts a truncated keyword)
    es = [it for p_, it in ctx.facts.hir.items() if it["name"] == "starts_with" and "impl_enum::parser" in p_]
    if len(es) != 1:
        from facts import AnchorMissing
        raise AnchorMissing("enum ParseState::starts_with")
    it = es[0]
    ctx.fn(it)
    kw = [p_["name"] for p_ in it["params"] if p_["k"] == "Binding" and p_["name"] != "self"]
    ok = False
    body = strip(it["body"])
    lets = hir.let_env(it["body"])
    for st_ in body["stmts"]:
        x = strip(st_.get("expr") or st_.get("init") or {"k": "?"}) if st_["k"] in ("Semi", "Expr") else None
        if x is None or x["k"] != "If":
            continue
        c = _norm(hir.through_lets(x["cond"], lets))      # named temporaries (`let n = keyword.chars().count()`) read through
        if c["k"] != "Binary" or c["op"] not in ("<", ">", "Lt", "Gt"):
            continue
        small, big = (c["l"], c["r"]) if c["op"] in ("<", "Lt") else (c["r"], c["l"])
        fs, fb = hir.field_path(_norm(small)), _norm(big)
        if fs != ("self", "len_env") or fb["k"] != "Binary" or fb["op"] not in ("+", "Add"):
            continue
        sides = [_norm(fb["l"]), _norm(fb["r"])]
        has_head = any(hir.field_path(z) == ("self", "head") for z in sides)
        has_cnt = any(len(kw) == 1 and is_char_count_of(z, {"k": "Path", "path": {"res": "local", "name": kw[0], "hid": None, "text": kw[0]}}) or
                      (z["k"] == "MethodCall" and z["method"] == "count" and _norm(z["recv"])["k"] == "MethodCall" and _norm(z["recv"])["method"] == "chars"
                       and hir.field_path(_norm(_norm(z["recv"])["recv"])) == (kw[0],)) for z in sides) if kw else False
        rets = [n for n in hir.walk(x["then"]) if n.get("k") == "Ret"]
        ret_false = bool(rets) and all(strip(r_["e"])["k"] == "Lit" and strip(r_["e"])["lit"]["v"] is False for r_ in rets if r_.get("e"))
        if has_head and has_cnt and ret_false and not x.get("else"):
            ok = True
    ctx.ob("P-FULLMATCH", "enum ParseState::starts_with answers false when fewer characters remain than the keyword has", ok,
           "expected an early `if self.len_env < self.head + keyword.chars().count() { return false }` before the comparison")
    ctx.sample({"rule": "P-FULLMATCH", "sites": [{"function": p, "line": c.get("line"), "length_guarded": ok} for p, it, c, ok in sites]})
    return sites
