"""H-* rules: PartialEq / Hash of enum Term (C06, C07)."""
import hir, mir, maps
from hir import strip, field_path, Unrecognised
from facts import AnchorMissing

TERM = maps.TERM_ADT
DET_HASHERS = ("std::hash::DefaultHasher::new", "std::collections::hash_map::DefaultHasher::new",
               "std::hash::SipHasher::new", "std::hash::random::DefaultHasher::new",
               "<std::hash::DefaultHasher as std::default::Default>::default",
               "<std::hash::random::DefaultHasher as std::default::Default>::default")
COMMUTATIVE_CALLS = ("wrapping_add", "wrapping_mul", "bitxor", "min", "max", "bitor", "bitand")
COMMUTATIVE_BINOPS = ("BitXor", "BitOr", "BitAnd", "Add", "Mul", "AddUnchecked", "MulUnchecked", "AddWithOverflow", "MulWithOverflow")


NAL_SET = {"SetExtension", "SetIntension", "IntersectionExtension", "IntersectionIntension", "Conjunction", "Disjunction", "ConjunctionParallel"}
NAL_SYM = {"Similarity", "Equivalence", "EquivalenceConcurrent"}


def storage_map(f):
    adt = f.adts.get(TERM)
    if adt is None:
        raise AnchorMissing("enum Term")
    out = {}
    for v in adt["variants"]:
        kinds = []
        for fd in v["fields"]:
            t = fd["ty"]
            if "HashSet<" in t:
                kinds.append("set")
            elif t.startswith("std::vec::Vec<"):
                kinds.append("vec")
            elif t.startswith("std::boxed::Box<"):
                kinds.append("box")
            elif t == "std::string::String":
                kinds.append("string")
            elif t in ("usize", "u64", "u32"):
                kinds.append("uint")
            else:
                kinds.append("other:" + t)
        out[v["name"]] = kinds
    return out


def trait_fn(ctx, name, trait, self_ty=TERM):
    f = ctx.facts
    its = f.select(f.hir, name, self_ty=self_ty, trait=trait)
    its = [i for i in its if (i.get("impl") or {}).get("self_ty") == self_ty]
    if len(its) != 1:
        raise AnchorMissing("%s::%s for %s (%d found)" % (trait, name, self_ty, len(its)))
    ctx.fn(its[0])
    return its[0]


def variant_value_map(ctx, it, rule):
    """variant -> resolved variant/const name returned by a `match self {...}` function; no wildcard allowed"""
    m = hir.top_match(it)
    out = {}
    for v, arm, pat in hir.arms_by_variant(m):
        if v == "_":
            ctx.ob(rule, "%s has no wildcard arm" % it["name"], False, "a wildcard arm hides new variants from the compiler's exhaustiveness check")
            continue
        b = hir.last_expr(arm["body"])
        if b["k"] == "Path":
            out[v] = hir.variant_of(b["path"])
        else:
            out[v] = None
    return out


def capacity_map(ctx):
    it = trait_fn(ctx, "get_capacity", "GetCapacity")
    return variant_value_map(ctx, it, "H-STORAGE")


CAP_STORAGE = {
    "Atom": [[], ["string"], ["uint"]],
    "Unary": [["box"]],
    "BinaryVec": [["box", "box"]],
    "BinarySet": [["box", "box"]],
    "Vec": [["vec"], ["uint", "vec"]],
    "Set": [["set"]],
}


def rule_H_STORAGE(ctx):
    ctx.rule("H-STORAGE", "per variant the storage kind declared in structs.rs matches the capacity class of get_capacity: "
             "Atom<->String/usize/unit, Unary<->Box, BinaryVec|BinarySet<->2×Box, Vec<->Vec or (usize,Vec), Set<->HashSet")
    st = storage_map(ctx.facts)
    cap = capacity_map(ctx)
    ctx.floor("Term variants", len(st), 30)
    for v in st:
        c = cap.get(v)
        ctx.ob("H-STORAGE", v, c in CAP_STORAGE and st[v] in CAP_STORAGE[c], "storage %s vs capacity class %s" % (st[v], c))
    ctx.rule("H-NAL", "the ordering class of each constructor is the one the property (NAL) states: sets, intersections, conjunction, "
             "disjunction, parallel conjunction are unordered; similarity, equivalence, concurrent equivalence are either-order; all others ordered")
    for v in st:
        want = "Set" if v in NAL_SET else ("BinarySet" if v in NAL_SYM else None)
        c = cap.get(v)
        ok = (c == want) if want else (c not in ("Set", "BinarySet"))
        ctx.ob("H-NAL", v, ok, "capacity class %s, NAL says %s" % (c, want or "ordered"))
    return st, cap


# ----------------------------------------------------------------------------
def eq_formula(e):
    """boolean formula over equalities of bindings: returns DNF as frozenset of frozensets of (a,b) pairs,
    True/False for literals"""
    e = strip(e)
    if e["k"] == "Lit" and e["lit"]["lit"] == "bool":
        return e["lit"]["v"]
    if e["k"] == "Binary" and e["op"] == "==":
        a, b = field_path(e["l"]), field_path(e["r"])
        if a and b and len(a) == 1 and len(b) == 1:
            return frozenset([frozenset([(a[0], b[0])])])
        raise Unrecognised("equality of non-bindings", e)
    if e["k"] == "Binary" and e["op"] == "&&":
        l, r = eq_formula(e["l"]), eq_formula(e["r"])
        if isinstance(l, bool) or isinstance(r, bool):
            raise Unrecognised("boolean literal inside conjunction", e)
        return frozenset(x | y for x in l for y in r)
    if e["k"] == "Binary" and e["op"] == "||":
        l, r = eq_formula(e["l"]), eq_formula(e["r"])
        if isinstance(l, bool) or isinstance(r, bool):
            raise Unrecognised("boolean literal inside disjunction", e)
        return l | r
    if e["k"] == "MethodCall" and e["method"] in ("eq",) and len(e["args"]) == 1:
        a, b = field_path(e["recv"]), field_path(e["args"][0])
        if a and b and len(a) == 1 and len(b) == 1:
            return frozenset([frozenset([(a[0], b[0])])])
    raise Unrecognised("expression %s in equality arm" % e["k"], e)


def rule_H_EQSHAPE(ctx, st, cap):
    """returns variant -> class in {'unit','ordered','set','sym'} for variants whose arm has the required shape"""
    ctx.rule("H-EQSHAPE", "the PartialEq arm of every variant pairs it only with itself, mentions every field, and has the shape its "
             "capacity class requires: ordered => conjunction of position-wise ==; Set => == of the two HashSets; BinarySet => "
             "(t1==u1 && t2==u2) || (t1==u2 && t2==u1); unit => true; the fallback arm is false. Each shape is an equivalence relation if "
             "the component relation is (structural induction)")
    it = trait_fn(ctx, "eq", "PartialEq")
    m = hir.top_match(it)
    sc = strip(m["scrut"])
    if sc["k"] != "Tup" or len(sc["elems"]) != 2:
        raise Unrecognised("PartialEq::eq does not match on (self, other)")
    seen = {}
    classes = {}
    for a in m["arms"]:
        for p in hir.flatten_or(a["pat"]):
            if p["k"] == "Wild":
                b = strip(a["body"])
                ctx.ob("H-EQSHAPE", "fallback arm is false", b["k"] == "Lit" and b["lit"]["v"] is False, "fallback arm must be `false`")
                continue
            if p["k"] != "Tuple" or len(p["pats"]) != 2:
                ctx.unrecognised("H-EQSHAPE", "eq", "arm pattern is not a pair")
                continue
            l, r = p["pats"]
            vl, vr = hir.pat_variants(l), hir.pat_variants(r)
            if vl is None or vr is None or len(vl) != 1 or len(vr) != 1:
                ctx.ob("H-EQSHAPE", "arm pairs a variant with itself", False, "pattern with wildcard side: %s / %s" % (vl, vr))
                continue
            v1, v2 = list(vl)[0], list(vr)[0]
            if v1 != v2:
                ctx.ob("H-EQSHAPE", "cross-variant arm (%s, %s)" % (v1, v2), False, "two different constructors may compare equal")
                continue
            if a.get("guard"):
                ctx.unrecognised("H-EQSHAPE", v1, "guarded arm")
                continue
            def inner(q):
                while q["k"] in ("Ref", "Box", "Deref"):
                    q = q["pat"]
                return q
            bl, br = hir.pat_bindings(inner(l)), hir.pat_bindings(inner(r))
            n = len(st[v1])
            try:
                fm = eq_formula(a["body"])
            except Unrecognised as u:
                ctx.unrecognised("H-EQSHAPE", v1, u.what)
                continue
            c = cap.get(v1)
            want_cls = {"Atom": "ordered", "Unary": "ordered", "BinaryVec": "ordered", "Vec": "ordered", "Set": "set", "BinarySet": "sym"}.get(c)
            if n == 0:
                ok = fm is True
                cls = "unit"
            else:
                if len(bl) != n or len(br) != n or None in bl or None in br:
                    ctx.ob("H-EQSHAPE", "%s mentions every field" % v1, False, "bindings %s / %s for %d fields" % (bl, br, n))
                    continue
                pos = lambda x: ("L", bl.index(x)) if x in bl else (("R", br.index(x)) if x in br else None)
                def norm(dnf):
                    out = set()
                    for conj in dnf:
                        cj = set()
                        for (x, y) in conj:
                            px, py = pos(x), pos(y)
                            if px is None or py is None or px[0] == py[0]:
                                raise Unrecognised("equality not between a left and a right field")
                            if px[0] == "R":
                                px, py = py, px
                            cj.add((px[1], py[1]))
                        out.add(frozenset(cj))
                    return frozenset(out)
                try:
                    nf = norm(fm) if not isinstance(fm, bool) else fm
                except Unrecognised as u:
                    ctx.unrecognised("H-EQSHAPE", v1, u.what)
                    continue
                straight = frozenset([frozenset((i, i) for i in range(n))])
                if want_cls == "sym":
                    want = frozenset([frozenset([(0, 0), (1, 1)]), frozenset([(0, 1), (1, 0)])])
                    cls = "sym"
                else:
                    want = straight
                    cls = want_cls
                ok = nf == want
            seen[v1] = seen.get(v1, 0) + 1
            ctx.ob("H-EQSHAPE", v1, ok and (cls == want_cls or n == 0),
                   "capacity class %s requires shape `%s`; arm compares %s" % (c, want_cls, sorted(map(sorted, nf)) if not isinstance(fm, bool) else fm),
                   "%s:%s" % (it["span"]["file"], a["line"]))
            if ok:
                classes[v1] = cls
    for v in st:
        if v not in seen:
            ctx.ob("H-EQSHAPE", "%s has an arm" % v, False, "variant falls to the `false` fallback: never equal to itself")
        elif seen[v] > 1:
            ctx.ob("H-EQSHAPE", "%s has one arm" % v, False, "%d arms" % seen[v])
    return classes


def rule_derived_eq(ctx):
    ctx.rule("H-DERIVED", "equality of Sentence, Task, Truth, Budget, Stamp, Punctuation and the Narsese value is `derive`d (structural over "
             "Term equality), with no hand-written PartialEq besides Term's")
    want = ["enum_narsese::sentence::Sentence", "enum_narsese::task::Task", "enum_narsese::sentence::truth::Truth",
            "enum_narsese::task::budget::Budget", "enum_narsese::sentence::stamp::Stamp",
            "enum_narsese::sentence::punctuation::Punctuation", "api::data_structure::narsese_value::NarseseValue<Term, Sentence, Task>"]
    impls = [i for i in ctx.facts.impls if i.get("trait") == "std::cmp::PartialEq"]
    for w in want:
        m = [i for i in impls if i["self_ty"] == w]
        ctx.ob("H-DERIVED", "PartialEq for %s" % w.rsplit("::", 1)[-1], len(m) == 1 and m[0]["derived"], "impls: %s" % [(i["self_ty"], i["derived"]) for i in m])
    manual = [i["self_ty"] for i in impls if not i["derived"] and "enum_narsese" in i["self_ty"]]
    ctx.ob("H-DERIVED", "only Term has a hand-written PartialEq in enum_narsese", manual == [TERM], "%s" % manual)


# ----------------------------------------------------------------------------
def sink_params(body):
    """argument locals that are hasher sinks: `&mut H` with H a type parameter / a Hasher type"""
    out = []
    for i in range(1, body["arg_count"] + 1):
        t = body["locals"][i]["ty"]
        if t.startswith("&mut "):
            inner = t[5:]
            if inner.isidentifier() or "Hasher" in inner:
                out.append(i)
    return out


def derives_from(g, op, locals_, depth=0):
    """operand derived (through copies/reborrows) from one of the given locals"""
    if op["k"] not in ("Copy", "Move"):
        return False
    l = op["place"]["local"]
    if l in locals_:
        return True
    if depth > 8:
        return False
    for d in g.defs.get(l, []):
        rv = d[2]
        if rv["k"] in ("Use", "Cast") and derives_from(g, rv["op"], locals_, depth + 1):
            return True
        if rv["k"] in ("Ref", "CopyForDeref", "RawPtr") and derives_from(g, {"k": "Copy", "place": rv["place"]}, locals_, depth + 1):
            return True
        # a closure / tuple / struct that captures the value carries it along (`iter.for_each(|x| x.hash(state))`)
        if rv["k"] == "Aggregate" and any(derives_from(g, o, locals_, depth + 1) for o in rv["ops"]):
            return True
    return False


def captured_in_aggregate(g, op, locals_, depth=0):
    """the operand is (a copy of) a closure / aggregate holding one of the locals rather than the local itself"""
    if op["k"] not in ("Copy", "Move") or depth > 8:
        return False
    for d in g.defs.get(op["place"]["local"], []):
        rv = d[2]
        if rv["k"] == "Aggregate" and any(derives_from(g, o, locals_, depth + 1) for o in rv["ops"]):
            return True
        if rv["k"] in ("Use", "Cast") and captured_in_aggregate(g, rv["op"], locals_, depth + 1):
            return True
        if rv["k"] in ("Ref", "CopyForDeref", "RawPtr") and captured_in_aggregate(g, {"k": "Copy", "place": rv["place"]}, locals_, depth + 1):
            return True
    return False


HASH_ITER_MARKS = ("hash_set", "hash_map", "hash::set", "hash::map", "HashSet", "HashMap")


def internal_iteration_sites(b, g, sinks):
    out = []
    for bi, t in g.calls():
        if b["blocks"][bi]["cleanup"]:
            continue
        has_sink = any(derives_from(g, a, set(sinks)) for a in t["args"])
        has_hash_iter = any(a["k"] in ("Copy", "Move") and any(m in b["locals"][a["place"]["local"]]["ty"] for m in HASH_ITER_MARKS)
                            and ("Iter" in b["locals"][a["place"]["local"]]["ty"] or "iter" in b["locals"][a["place"]["local"]]["ty"])
                            for a in t["args"])
        if has_sink and has_hash_iter:
            out.append((bi, t))
    return out


def unordered_loops(body):
    """loops whose `next` is on a hash_set / hash_map iterator"""
    g = mir.cfg(body)
    out = []
    for h, blocks, tails in g.loops():
        for bi in blocks:
            t = body["blocks"][bi]["term"]
            if t["k"] == "Call" and mir.callee_name(t) == "next":
                fn = mir.callee_fn(t)
                s = (fn.get("def_with_args") or "") + (fn.get("self_ty") or "")
                if "hash_set" in s or "hash_map" in s or "hash::set" in s or "hash::map" in s or "HashSet" in s or "HashMap" in s:
                    out.append((h, blocks))
    return out


def rule_H_ORDER(ctx):
    ctx.rule("H-ORDER", "in every function reachable from <Term as Hash>::hash that has a hasher sink parameter, no call that receives the "
             "sink lies inside a loop iterating a hash_set/hash_map (std gives every HashSet its own RandomState, so equal sets iterate in "
             "different orders)")
    f = ctx.facts
    root = [p for p, b in f.mir.items() if b["name"] == "hash" and (b.get("impl") or {}).get("self_ty") == TERM and (b.get("impl") or {}).get("trait") == "std::hash::Hash"]
    if len(root) != 1:
        raise AnchorMissing("<Term as Hash>::hash")
    cg = mir.callgraph(f)
    reach = cg.reachable(root)
    n = 0
    for p in sorted(reach):
        b = f.mir[p]
        sinks = sink_params(b)
        if not sinks:
            continue
        ctx.fn(b)
        n += 1
        g = mir.cfg(b)
        bad = []
        for h, blocks in unordered_loops(b):
            for bi in sorted(blocks):
                t = b["blocks"][bi]["term"]
                if t["k"] == "Call" and any(derives_from(g, a, set(sinks)) for a in t["args"]):
                    bad.append("%s at line %s" % (mir.callee_name(t), t["line"]))
        # internal iteration: one call gets both a hash-set/map iterator (or adapter over one) and the sink / a closure capturing it
        for bi, t in internal_iteration_sites(b, g, sinks):
            if True:
                cal = mir.callee_path(t)
                if cal in f.mir and sink_params(f.mir[cal]) and combiner_check(ctx, cal)[0]:
                    continue        # handed to a function proved to be an unordered combiner (H-COMB)
                bad.append("%s at line %s consumes a hash-set iterator together with the sink" % (mir.callee_name(t), t["line"]))
        ctx.ob("H-ORDER", b["name"], not bad, "the hasher sink is fed inside a hash-set iteration: %s" % bad, "%s:%s" % (b["span"]["file"], b["span"]["line"]))
    ctx.floor("functions with a hasher sink reachable from Term::hash", n, 2)
    return reach


def combiner_check(ctx, path, depth=0):
    """H-COMB: returns (ok, reason).  A function with a sink parameter is an unordered combiner iff every sink write is outside
    loops and depends only on accumulators updated by commutative-associative operations of per-item digests, each digest
    = finish() of a fresh deterministic hasher into which exactly the loop item was hashed; or it only forwards to another combiner."""
    f = ctx.facts
    b = f.mir.get(path)
    if b is None:
        return False, "not a local function"
    ctx.fn(b)
    g = mir.cfg(b)
    sinks = set(sink_params(b))
    if not sinks:
        return False, "no hasher sink parameter"
    loops = g.loops()
    in_loop = set()
    for h, blocks, tails in loops:
        in_loop |= blocks
    sink_calls = []
    for bi in sorted(g.reach):
        t = b["blocks"][bi]["term"]
        if t["k"] == "Call" and any(derives_from(g, a, sinks) for a in t["args"]):
            sink_calls.append((bi, t))
    if not sink_calls:
        return False, "sink never written"
    for bi, t in sink_calls:
        if bi in in_loop:
            return False, "sink written inside a loop (%s at line %s)" % (mir.callee_name(t), t["line"])
        if any(captured_in_aggregate(g, a, sinks) for a in t["args"]):
            return False, "the sink is captured by a closure / aggregate handed to %s at line %s: the order in which it is fed is not visible" % (mir.callee_name(t), t["line"])
    for bi, t in sink_calls:
        nm = mir.callee_name(t)
        cal = mir.callee_path(t)
        data = [a for a in t["args"] if not derives_from(g, a, sinks)]
        if cal in f.mir and depth < 3 and sink_params(f.mir[cal]):
            # forwarding wrapper: callee must itself be a combiner; data args must come from parameters
            ok, why = combiner_check(ctx, cal, depth + 1)
            if not ok:
                return False, "forwards to %s which is not a combiner: %s" % (f.mir[cal]["name"], why)
            continue
        # direct write: Hasher::write_*(sink, acc) or Hash::hash(&acc, sink)
        for a in data:
            if a["k"] == "Const":
                continue
            ok, why = accumulator_ok(b, g, a, loops)
            if not ok:
                return False, "value written to the sink by %s is not an order-independent accumulator: %s" % (nm, why)
    return True, "ok"


def accumulator_ok(b, g, op, loops):
    # find the accumulator local (through refs/copies)
    seen = set()
    cur = op
    for _ in range(8):
        if cur["k"] not in ("Copy", "Move"):
            return False, "non-place operand"
        l = cur["place"]["local"]
        ds = g.defs.get(l, [])
        if len(ds) == 1 and ds[0][2]["k"] in ("Use",) and ds[0][2]["op"]["k"] in ("Copy", "Move"):
            cur = ds[0][2]["op"]
            continue
        if len(ds) == 1 and ds[0][2]["k"] in ("Ref", "CopyForDeref"):
            cur = {"k": "Copy", "place": ds[0][2]["place"]}
            continue
        break
    acc = cur["place"]["local"]
    ds = g.defs.get(acc, [])
    if not ds:
        return False, "accumulator has no definition"
    in_loop = set()
    for h, blocks, tails in loops:
        in_loop |= blocks
    n_updates = 0
    for bi, si, rv in ds:
        if bi not in in_loop:
            # initial value: constant or len()
            if rv["k"] == "Use" and rv["op"]["k"] == "Const":
                continue
            if rv["k"] == "CallResult" and mir.callee_name(rv["term"]) in ("len", "new", "default"):
                continue
            return False, "accumulator initialised from a non-constant outside the loop"
        n_updates += 1
        # update inside loop: commutative op of (acc, digest); look through plain copies of temporaries
        for _ in range(6):
            if rv["k"] == "Use" and rv["op"]["k"] in ("Copy", "Move"):
                r = rv["op"]["place"]
                dd = g.defs.get(r["local"], [])
                if len(dd) == 1:
                    rv = dd[0][2]
                    continue
            break
        if rv["k"] == "CallResult":
            t = rv["term"]
            if mir.callee_name(t) not in COMMUTATIVE_CALLS:
                return False, "accumulator updated by non-commutative call %s" % mir.callee_name(t)
            ops = t["args"]
        elif rv["k"] == "BinaryOp" and rv["op"] in COMMUTATIVE_BINOPS:
            ops = [rv["l"], rv["r"]]
        elif rv["k"] == "BinaryOp":
            return False, "accumulator updated by non-commutative operator %s" % rv["op"]
        else:
            return False, "accumulator updated by %s" % rv["k"]
        others = [o for o in ops if not (o["k"] in ("Copy", "Move") and resolves_to(g, o, acc))]
        if len(others) != len(ops) - 1:
            return False, "update does not combine the accumulator with exactly one digest"
        for o in others:
            ok, why = digest_ok(b, g, o, in_loop)
            if not ok:
                return False, why
    if n_updates == 0:
        return False, "accumulator never updated in a loop"
    return True, "ok"


def resolves_to(g, op, local, depth=0):
    if op["k"] not in ("Copy", "Move"):
        return False
    l = op["place"]["local"]
    if l == local:
        return True
    if depth > 6:
        return False
    ds = g.defs.get(l, [])
    if len(ds) == 1:
        rv = ds[0][2]
        if rv["k"] == "Use":
            return resolves_to(g, rv["op"], local, depth + 1)
        if rv["k"] in ("Ref", "CopyForDeref"):
            return resolves_to(g, {"k": "Copy", "place": rv["place"]}, local, depth + 1)
    return False


def digest_ok(b, g, op, in_loop):
    """op = finish(&h) with h a fresh deterministic hasher created in the loop and fed exactly one Hash::hash(item, &mut h)"""
    if op["k"] == "Const":
        return True, "const"
    r, p = g.resolve_operand(op)
    if r[0] != "call" or mir.callee_name(r[1]) != "finish":
        return False, "digest is not the result of Hasher::finish"
    ft = r[1]
    # hasher local
    hop = ft["args"][0]
    hl = None
    cur = hop
    for _ in range(6):
        if cur["k"] not in ("Copy", "Move"):
            break
        l = cur["place"]["local"]
        ds = g.defs.get(l, [])
        if len(ds) == 1 and ds[0][2]["k"] in ("Ref", "CopyForDeref"):
            cur = {"k": "Copy", "place": ds[0][2]["place"]}
            continue
        if len(ds) == 1 and ds[0][2]["k"] == "Use" and ds[0][2]["op"]["k"] in ("Copy", "Move"):
            cur = ds[0][2]["op"]
            continue
        hl = l
        break
    if hl is None:
        return False, "cannot find the per-item hasher"
    hds = g.defs.get(hl, [])
    if len(hds) != 1 or hds[0][2]["k"] != "CallResult":
        return False, "per-item hasher is not created by a single constructor call"
    ctor = mir.callee_path(hds[0][2]["term"]) or ""
    cdef = (mir.callee_fn(hds[0][2]["term"]) or {}).get("def_with_args") or ctor
    if hds[0][0] not in in_loop:
        return False, "the digest hasher is created outside the loop (state carries over between items)"
    if not (ctor in DET_HASHERS or cdef in DET_HASHERS):
        return False, "per-item hasher built by `%s`, not a deterministic constructor (RandomState-based hashers differ per instance)" % (cdef,)
    # what is fed into the hasher
    feeds = []
    for bi in sorted(g.reach):
        t = b["blocks"][bi]["term"]
        if t["k"] == "Call" and t is not ft and t is not hds[0][2]["term"] and any(derives_from(g, a, {hl}) for a in t["args"]):
            feeds.append(t)
    if len(feeds) != 1 or mir.callee_name(feeds[0]) != "hash":
        return False, "per-item hasher is fed by %s (expected exactly one Hash::hash of the item)" % [mir.callee_name(x) for x in feeds]
    return True, "ok"


# ----------------------------------------------------------------------------
def hash_arm_items(ctx, arm, binds, st_v, state_name):
    """decode a Hash arm body into items"""
    items = []

    def stmt_exprs(e):
        e = strip(e)
        if e["k"] == "Block":
            out = []
            for s in e["stmts"]:
                if s["k"] in ("Semi", "Expr"):
                    out.extend(stmt_exprs(s["expr"]))
                elif s["k"] == "Item":
                    pass
                else:
                    raise Unrecognised("statement %s in hash arm" % s["k"], s)
            if e.get("expr"):
                out.extend(stmt_exprs(e["expr"]))
            return out
        return [e]

    for x in stmt_exprs(arm["body"]):
        if x["k"] == "MethodCall" and x["method"] == "hash" and len(x["args"]) == 1 and field_path(x["args"][0]) == (state_name,):
            r = field_path(x["recv"])
            if r and len(r) == 1 and r[0] in binds:
                items.append(("field", binds.index(r[0])))
                continue
            rr = strip(x["recv"])
            if rr["k"] == "Lit":
                items.append(("const",))
                continue
            if rr["k"] == "MethodCall" and rr["method"] == "len" and not rr["args"]:
                q = field_path(rr["recv"])
                if q and len(q) == 1 and q[0] in binds:
                    items.append(("len", binds.index(q[0])))   # the length is a function of the Eq class
                    continue
            raise Unrecognised("hash of a non-field value", x)
        if x["k"] == "Match" and "ForLoop" in x.get("source", ""):
            # for t in <binding> { t.hash(state) }
            it = strip(x["scrut"])
            src = None
            if it["k"] == "Call" and it["args"]:
                src = field_path(it["args"][0])
            loop_calls = [c for c in hir.find_calls(x) if c["k"] == "MethodCall" and c["method"] == "hash"]
            other = [c for c in hir.find_calls(x) if hir.callee_name(c) not in ("hash", "into_iter", "next", "iter")]
            if src and len(src) == 1 and src[0] in binds and len(loop_calls) == 1 and not other:
                pos = binds.index(src[0])
                items.append(("each", pos, st_v[pos]))
                continue
            raise Unrecognised("loop shape in hash arm", x)
        if x["k"] == "MethodCall" and x["method"] == "for_each" and len(x["args"]) == 1 and strip(x["args"][0])["k"] == "Closure":
            # <binding>.iter().for_each(|t| t.hash(state)) is the loop above
            r_ = strip(x["recv"])
            while r_["k"] == "MethodCall" and r_["method"] in ("iter", "into_iter") and not r_["args"]:
                r_ = strip(r_["recv"])
            src = field_path(r_)
            cl_ = strip(x["args"][0])
            cb_ = strip(cl_["body"])
            while cb_["k"] == "Block" and not [s_ for s_ in cb_["stmts"] if s_["k"] != "Item"] and cb_.get("expr") is not None:
                cb_ = strip(cb_["expr"])
            if cb_["k"] == "Block" and len(cb_["stmts"]) == 1 and cb_["stmts"][0]["k"] in ("Semi", "Expr") and not cb_.get("expr"):
                cb_ = strip(cb_["stmts"][0]["expr"])
            cp_ = [q_.get("name") for q_ in cl_.get("params", []) if q_.get("k") == "Binding"]
            if src and len(src) == 1 and src[0] in binds and len(cp_) == 1 and cb_["k"] == "MethodCall" and cb_["method"] == "hash" \
                    and field_path(cb_["recv"]) == (cp_[0],) and len(cb_["args"]) == 1 and field_path(cb_["args"][0]) == (state_name,):
                pos = binds.index(src[0])
                items.append(("each", pos, st_v[pos]))
                continue
            raise Unrecognised("for_each shape in hash arm", x)
        if x["k"] in ("Call", "MethodCall"):
            args = hir.call_args(x)
            if any(field_path(a) == (state_name,) for a in args):
                used = []
                for a in args:
                    if field_path(a) == (state_name,):
                        continue
                    for n in hir.walk(a):
                        if n.get("k") == "Path" and n["path"].get("res") == "local" and n["path"]["name"] in binds:
                            used.append(binds.index(n["path"]["name"]))
                items.append(("comb", hir.callee(x), sorted(set(used))))
                continue
        raise Unrecognised("statement %s in hash arm" % x["k"], x)
    return items


def rule_H_HASH(ctx, st, classes):
    """C07 obligations per variant"""
    ctx.rule("H-FIELDS", "ordered variants: the Hash arm feeds only fields PartialEq compares, in stored order (hashing fewer is allowed)")
    ctx.rule("H-SET", "set-like variants: the Hash arm passes the set to an unordered combiner and nothing else to the sink")
    ctx.rule("H-SYM", "variants compared in either operand order: the Hash arm passes both operands to an unordered combiner and nothing else")
    ctx.rule("H-COMB", "a function is an unordered combiner iff every sink write is outside loops and depends only on an accumulator "
             "updated by commutative-associative operations of per-item digests, each digest = finish() of a fresh deterministic hasher "
             "fed exactly the item; or it forwards to such a function")
    it = trait_fn(ctx, "hash", "Hash")
    state_name = it["params"][1].get("name")
    m = hash_top_match(it, state_name)
    comb_cache = {}
    seen = set()
    for v, arm, pat in hir.arms_by_variant(m):
        if v == "_":
            ctx.ob("H-FIELDS", "Hash has no wildcard arm", False, "wildcard arm")
            continue
        seen.add(v)
        binds = hir.pat_bindings(pat)
        cls = classes.get(v)
        rule = {"set": "H-SET", "sym": "H-SYM"}.get(cls, "H-FIELDS")
        site = "%s:%s" % (it["span"]["file"], arm["line"])
        try:
            items = hash_arm_items(ctx, arm, binds, st[v], state_name)
        except Unrecognised as u:
            ctx.unrecognised(rule, "Hash %s" % v, u.what, site)
            continue
        if cls is None:
            ctx.ob(rule, "Hash %s" % v, False, "no verified equality class for this variant (see H-EQSHAPE)", site)
            continue
        if cls in ("ordered", "unit"):
            pos = [i[1] for i in items if i[0] in ("field", "each")]
            ok = all(i[0] in ("field", "each", "const", "len") for i in items) and pos == sorted(set(pos))
            bad_each = [i for i in items if i[0] == "each" and i[2] != "vec"]
            ctx.ob(rule, "Hash %s" % v, ok and not bad_each, "feeds %s" % (items,), site)
        else:
            want_pos = [0] if cls == "set" else [0, 1]
            items = [i for i in items if i[0] not in ("len", "const")]
            ok = len(items) == 1 and items[0][0] == "comb" and items[0][2] == want_pos
            why = "feeds %s; expected one call handing %s to an unordered combiner" % (items, "the set" if cls == "set" else "both operands")
            if ok:
                fn = items[0][1]
                if fn not in comb_cache:
                    comb_cache[fn] = combiner_check(ctx, fn)
                    ctx.ob("H-COMB", "%s is an unordered combiner" % (fn or "?").rsplit("::", 1)[-1], comb_cache[fn][0], comb_cache[fn][1])
                ok = comb_cache[fn][0]
                why = "combiner %s rejected: %s" % ((fn or "?").rsplit("::", 1)[-1], comb_cache[fn][1])
            ctx.ob(rule, "Hash %s" % v, ok, why, site)
    for v in st:
        if v not in seen:
            ctx.ob("H-FIELDS", "Hash %s has an arm" % v, False, "missing arm")


def hash_top_match(it, state_name):
    """the `match self` of Hash::hash, optionally preceded by `discriminant(self).hash(state)` (a function of the constructor,
    which PartialEq never ignores)"""
    e = strip(it["body"])
    if e["k"] == "Block":
        real = [s for s in e["stmts"] if s["k"] != "Item"]
        pre = real[:-1] if not e.get("expr") else real
        for s_ in pre:
            x = strip(s_.get("expr") or {"k": "?"}) if s_["k"] in ("Semi", "Expr") else None
            okp = (x is not None and x["k"] == "MethodCall" and x["method"] == "hash" and field_path(x["args"][0]) == (state_name,)
                   and strip(x["recv"])["k"] == "Call" and hir.callee(strip(x["recv"])) == "std::mem::discriminant")
            if not okp:
                raise Unrecognised("statement before the match in Hash::hash", s_)
        last = e.get("expr") or (real[-1]["expr"] if real and real[-1]["k"] in ("Semi", "Expr") else None)
        if last is None:
            raise Unrecognised("Hash::hash body")
        e = strip(last)
    if e["k"] != "Match":
        raise Unrecognised("Hash::hash body is not a match")
    return e
