"""B-LEN: assume/guarantee proof of the border invariant of the lexical parser.

Invariant (contract of every function F of impl_lexical::parser that takes the char environment `env: &[char]` as its 2nd argument):
    post(F):  every usize F returns (inside Ok / Err / Some / a tuple, or bare) is <= len(env)
    pre(F):   a usize argument that is a start position (collect_some_prefix / segment_some_prefix, 3rd argument) is <= len(env)
Each function is checked against its own body assuming the contracts of its callees (recursion included: the usual partial
correctness induction).  With the invariant, every slice site `env[a..]`, `env[..b]` of the module has a proved bound.

Abstract domain (no solver, no execution): for an usize operand the analysis resolves copies to a *root*
    const | len(slice) | count(chars(S)) | usize payload of a contract call on slice s | sum / difference of two operands | multi-def local
and proves `x <= len(E)` (E = the function's env argument) with these rules
    LE-0      const 0; len(E); len(E[..]) (sub-slice lengths never exceed len(E))
    LE-ARG    argument covered by pre(F)
    LE-PAY    payload of a contract call on a sub-slice of E                     (post of the callee; len(s) <= len(E))
    LE-COUNT  count(chars(S)) where S is a keyword *fully matched* inside a sub-slice of E   (see FITS generators)
    LE-SUB    a - b with a <= len(E)                                                (underflow is P-GUARD's obligation)
    LE-SUM    a + b with FITS(b, a) or FITS(a, b)
    LE-PHI    multi-definition local: every definition proved under the hypothesis that the local already satisfies LE (induction)
    LE-MIN    min(a, b) with one side proved
FITS(t, o) means o + t <= len(E), i.e. t <= len(E[o..]); generators
    F-GUARD   count(chars(S)) under a dominating true edge of starts_with_full(E[o..], S)   (helper verified by P-FULLMATCH)
    F-PREFIX  count(chars(S)) where S is the matched prefix returned by match_prefix_char_slice(dict, E[o..])  (pinned dependency:
              char_slice_has_prefix = String::from_iter(slice).starts_with(prefix), a full match)
    F-PAY     usize payload of a contract call on E[o..]
    F-SLICE   len(x) under a dominating true edge of <[char]>::starts_with(E[o..], x)
    F-ONE     const 1 under a dominating true edge of o < len(E)
`o` of the generator and `a` of the sum must be the same value: same root, and for a multi-definition root no definition
between the point where the generator's copy was taken and the sum.
Unproved obligations are violations unless listed (with a reason) in RESIDUAL below."""
import mir
import guards as G
from facts import AnchorMissing

MOD = "impl_lexical::parser"
ENV_TY = "&[char]"
# usize start-position arguments with precondition `<= len(env)`
PRE = {"collect_some_prefix": [3], "segment_some_prefix": [3]}
# functions whose returned usize values are NOT borders into their env (none today); anything else with an env argument is under contract
NO_POST = set()
FULL_GUARD = "starts_with_full"

# obligations this rule does not try to prove, each with the reason it is left to the reviewed table (P-GUARD / R-BORDER)
RESIDUAL = {
    ("segment_atom::{closure#0}", "index"): "the closure indexes the captured env with the position collect_some_prefix hands it (i < len by that loop's guard); "
                                            "relating the capture to the caller's slice is beyond this rule",
}


def _is_place_op(o):
    return o["k"] in ("Copy", "Move")


class Fn:
    def __init__(self, facts, body, contracts):
        self.f = facts
        self.b = body
        self.g = mir.cfg(body)
        self.sym = G.Sym(body)
        self.contracts = contracts
        self.env = None
        for i in range(1, body["arg_count"] + 1):
            if body["locals"][i]["ty"] == ENV_TY:
                self.env = i
                break
        self.multi = {l for l, ds in self.g.defs.items() if len(ds) > 1 and not (1 <= l <= body["arg_count"])}
        self.trace = []

    # ------------------------------------------------------------------ basic resolution
    def ty(self, l):
        return self.b["locals"][l]["ty"]

    def root(self, op):
        """follow whole-local copies: -> ('const', v) | ('local', l, snap) where snap = (block, stmt) of the first copy taken
        from the root local (None when op names the root directly)"""
        snap = None
        if not _is_place_op(op):
            if op["k"] == "Const":
                return ("const", op.get("v"))
            return ("other",)
        pl = op["place"]
        if pl["proj"]:
            return ("place", pl)
        l = pl["local"]
        for _ in range(40):
            if 1 <= l <= self.b["arg_count"] or l in self.multi:
                return ("local", l, snap)
            d = self.g.single_def(l)
            if d is None:
                return ("local", l, snap)
            rv = d[2]
            if rv["k"] == "Use" and _is_place_op(rv["op"]) and not rv["op"]["place"]["proj"]:
                snap = (d[0], d[1])
                l = rv["op"]["place"]["local"]
                continue
            if rv["k"] == "Use" and rv["op"]["k"] == "Const":
                return ("const", rv["op"].get("v"))
            return ("local", l, snap)
        return ("local", l, snap)

    def strkey(self, op):
        """identity of an immutable string / char-slice operand (through &, deref, as_str ...)"""
        r, p = self.g.resolve_operand(op)
        if r[0] == "call":
            t = r[1]
            nm = mir.callee_name(t)
            # collect(chars(S)) and deref(collect(..)) denote the characters of S
            if nm in ("collect", "chars", "from_iter") and t["args"]:
                return self.strkey(t["args"][0])
            return ("call", r[2], nm) + tuple(p)
        if r[0] == "arg":
            return ("arg", r[1]) + tuple(p)
        if r[0] == "local":
            return ("local", r[1]) + tuple(p)
        if r[0] == "const":
            return ("const", repr(r[1])) + tuple(p)
        return (r[0], str(r[1])) + tuple(p)

    def slice_of(self, op, depth=0):
        """describe a &[char] operand relative to E: ('E', lo_op|None, hi_op|None) or None"""
        if not _is_place_op(op) or depth > 12:
            return None
        pl = op["place"]
        if [e for e in pl["proj"] if e["k"] != "Deref"]:
            return None
        l = pl["local"]
        if l == self.env:
            return ("E", None, None)
        if 1 <= l <= self.b["arg_count"]:
            return None
        d = self.g.single_def(l)
        if d is None:
            return None
        rv = d[2]
        if rv["k"] in ("Ref", "CopyForDeref", "RawPtr"):
            return self.slice_of({"k": "Copy", "place": rv["place"]}, depth + 1)
        if rv["k"] in ("Use", "Cast") and _is_place_op(rv["op"]):
            return self.slice_of(rv["op"], depth + 1)
        if rv["k"] == "CallResult":
            t = rv["term"]
            nm = mir.callee_name(t)
            if nm in mir.TRANSPARENT_CALLS and t["args"]:
                return self.slice_of(t["args"][0], depth + 1)
            if nm == "index" and len(t["args"]) == 2:
                base = self.slice_of(t["args"][0], depth + 1)
                rng = self.range_of(t["args"][1])
                if base is None or rng is None:
                    return None
                if base != ("E", None, None):
                    return ("sub", base, rng)       # nested sub-slice: still inside E
                kind, a, b_ = rng
                return ("E", a, b_)
        return None

    def range_of(self, op):
        if not _is_place_op(op):
            return None
        d = self.g.single_def(op["place"]["local"])
        if d is None or d[2]["k"] != "Aggregate" or d[2].get("agg") != "Adt":
            return None
        rv = d[2]
        nm = rv["adt"].rsplit("::", 1)[-1]
        fl = dict(zip(rv.get("field_names") or [], rv["ops"]))
        if nm == "RangeFrom":
            return ("from", fl.get("start"), None)
        if nm == "RangeTo":
            return ("to", None, fl.get("end"))
        if nm == "Range":
            return ("range", fl.get("start"), fl.get("end"))
        if nm == "RangeFull":
            return ("full", None, None)
        return None

    # ------------------------------------------------------------------ same value at two points
    def between(self, a_blk, b_blk):
        g = self.g
        fw = g.reachable_from(a_blk)
        return {x for x in fw if x == b_blk or b_blk in g.reachable_from(x, avoid=(a_blk,))} | {a_blk}

    def same_value(self, o1, at1, o2, at2):
        """o1 evaluated at block at1 and o2 evaluated at block at2 denote the same number"""
        r1, r2 = self.root(o1), self.root(o2)
        if r1[0] == "const" and r2[0] == "const":
            return r1[1] == r2[1]
        if r1[0] != "local" or r2[0] != "local" or r1[1] != r2[1]:
            return False
        l = r1[1]
        if l not in self.multi:
            return True
        # snapshot points: where each copy was taken (or the use point itself)
        p1 = r1[2][0] if r1[2] else at1
        p2 = r2[2][0] if r2[2] else at2
        first, last = (p1, p2) if p2 in self.g.reachable_from(p1) else (p2, p1)
        zone = self.between(first, last)
        for (db, si, rv) in self.g.defs.get(l, []):
            if db in zone and db not in (first, last):
                return False
            if db == first and first != last:
                # a definition in the first block is fine only if it precedes the snapshot; copies are taken at block start in practice
                snap = r1[2] if p1 == first else r2[2]
                if snap is not None and isinstance(si, int) and isinstance(snap[1], int) and si > snap[1]:
                    return False
                if si == "term":
                    return False
            if db == last and first != last:
                snap = r1[2] if p1 == last else r2[2]
                if snap is not None and isinstance(si, int) and isinstance(snap[1], int) and si < snap[1]:
                    return False
        if first == last and p1 == p2:
            # same block: no definition between the two statements
            s1 = r1[2][1] if r1[2] else 10 ** 6
            s2 = r2[2][1] if r2[2] else 10 ** 6
            lo, hi = sorted([s1 if isinstance(s1, int) else 10 ** 6, s2 if isinstance(s2, int) else 10 ** 6])
            for (db, si, rv) in self.g.defs.get(l, []):
                if db == first and isinstance(si, int) and lo < si < hi:
                    return False
        return True

    # ------------------------------------------------------------------ dominating conditions
    def forced(self, bi):
        """[(kind, data, truth, switch block)] for bool conditions forced on the way to block bi"""
        out = []
        for (e, val, d, s, discr) in self.sym._guards_full(bi):
            if val not in ("true", "false") or not _is_place_op(discr):
                continue
            # `val` belongs to the CANONICAL spelling of the guard (guards.canon_guard may have negated it); this prover reads the raw MIR
            # rvalue, so it needs the raw truth of the switch operand on the taken edge
            tsw = self.b["blocks"][d]["term"]
            zero_targets = [tb for v, tb in tsw.get("targets", []) if v == 0]
            val = "false" if s in zero_targets else "true"
            dl = discr["place"]["local"]
            dd = self.g.single_def(dl)
            if dd is None:
                continue
            rv = dd[2]
            neg = False
            while rv["k"] == "UnaryOp" and rv["op"] == "Not" and _is_place_op(rv["e"]):
                nd = self.g.single_def(rv["e"]["place"]["local"])
                if nd is None:
                    break
                rv = nd[2]
                neg = not neg
            truth = (val == "true") != neg
            if rv["k"] == "CallResult":
                out.append(("call", rv["term"], truth, d))
            elif rv["k"] == "BinaryOp":
                out.append(("bin", rv, truth, d))
        return out

    # ------------------------------------------------------------------ classification of usize roots
    def describe(self, op):
        """-> descriptor of the value of a usize operand"""
        r = self.root(op)
        if r[0] == "const":
            return ("const", r[1])
        if r[0] == "place":
            return self.describe_place(r[1])
        if r[0] != "local":
            return ("unknown",)
        l = r[1]
        if 1 <= l <= self.b["arg_count"]:
            return ("arg", l)
        if l in self.multi:
            return ("multi", l)
        d = self.g.single_def(l)
        if d is None:
            return ("unknown",)
        rv = d[2]
        if rv["k"] == "Use" and _is_place_op(rv["op"]):
            return self.describe_place(rv["op"]["place"])
        if rv["k"] == "UnaryOp" and rv["op"] == "PtrMetadata":
            return ("len", rv["e"], d[0])
        if rv["k"] == "CallResult":
            t = rv["term"]
            nm = mir.callee_name(t)
            cp = mir.callee_path(t) or ""
            if nm == "len" and t["args"] and ("slice" in cp or "[T]" in cp or "Vec" in cp or "vec" in cp):
                return ("len", t["args"][0], d[0])
            if nm == "count" and t["args"]:
                return ("count", t["args"][0], d[0])
            if nm == "min" and len(t["args"]) == 2:
                return ("min", t["args"][0], t["args"][1], d[0])
            if nm in self.contracts:
                return ("payload", t, d[0], ())
            return ("call", t, d[0])
        return ("unknown",)

    def describe_place(self, pl):
        """usize read through a projection: tuple field of a checked op, or payload of a call result"""
        base = pl["local"]
        fields = [e for e in pl["proj"] if e["k"] != "Deref"]
        if base in self.multi and len(fields) == 1 and fields[0]["k"] == "Field":
            alts = []
            for (db, si, rv) in self.g.defs[base]:
                if rv["k"] == "Aggregate" and rv.get("agg") == "Tuple" and fields[0]["idx"] < len(rv["ops"]):
                    alts.append((rv["ops"][fields[0]["idx"]], db))
                else:
                    return ("unknown",)
            return ("alts", alts)
        d = self.g.single_def(base) if base not in self.multi else None
        if d is not None and d[2]["k"] == "BinaryOp" and d[2]["op"] in ("AddWithOverflow", "SubWithOverflow") and len(fields) == 1 and fields[0].get("name") == "0":
            return ("sum" if d[2]["op"].startswith("Add") else "diff", d[2]["l"], d[2]["r"], d[0])
        r, p = self.g.resolve_place(pl)
        if r[0] == "call":
            return self.payload(r[1], r[2], tuple(p))
        if r[0] == "arg":
            return ("argfield", r[1], tuple(p))
        return ("unknown",)

    def payload(self, term, blk, proj, depth=0):
        """peel Try::branch / ok_or / right_unwrap_or wrappers down to a contract call"""
        nm = mir.callee_name(term)
        if depth > 8:
            return ("unknown",)
        if nm in self.contracts:
            return ("payload", term, blk, proj)
        if nm in ("branch", "ok_or", "ok", "unwrap", "expect", "into_iter", "map_err") and term["args"]:
            inner = term["args"][0]
            p = list(proj)
            if nm == "branch":
                if p[:2] != ["@Continue", "0"]:
                    return ("unknown",)
                p = p[2:]
            elif nm in ("ok_or",):
                if p[:2] == ["@Ok", "0"]:
                    p = p[2:]
            r2, p2 = self.g.resolve_operand(inner)
            if r2[0] == "call":
                # the inner value's own success payload: Some.0 / Ok.0 are implicit in the wrapper's success payload
                return self.payload(r2[1], r2[2], tuple(p2) + tuple(p), depth + 1)
            if r2[0] == "local" and nm == "branch" and not p2 and len(p) == 1 and str(p[0]).isdigit():
                # ... and `Ok((a, b))`: the k-th component of the tuple built for the Ok
                alts = self.ok_alternatives(r2[1])
                proj_alts = []
                for o_, blk_ in alts or []:
                    d_ = self.g.single_def(o_["place"]["local"]) if _is_place_op(o_) and not o_["place"]["proj"] else None
                    if d_ is None or d_[2]["k"] != "Aggregate" or d_[2].get("agg") != "Tuple" or int(p[0]) >= len(d_[2]["ops"]):
                        proj_alts = None
                        break
                    proj_alts.append((d_[2]["ops"][int(p[0])], d_[0]))
                if proj_alts:
                    return ("alts", proj_alts)
            if r2[0] == "local" and nm == "branch" and not p2 and not p:
                # LE-UNWRAP: `x?` on a Result BUILT IN THIS BODY (the body of a new helper spliced in, see lib/inline.py): the Continue payload is
                # the operand of one of the `Ok(..)` aggregates that define it; error definitions never reach the Continue edge
                alts = self.ok_alternatives(r2[1])
                if alts:
                    return ("alts", alts)
            return ("unknown",)
        if nm == "right_unwrap_or" and len(term["args"]) == 2 and list(proj) == ["1"]:
            r2, p2 = self.g.resolve_operand(term["args"][0])
            if r2[0] == "call":
                some = self.payload(r2[1], r2[2], tuple(p2) + ("1",), depth + 1)
                return ("either", some, ("op", term["args"][1], blk))
            return ("unknown",)
        return ("call", term, blk)

    def ok_alternatives(self, l, depth=0):
        """[(operand, block)] of the `Result::Ok(operand)` aggregates that may define local l (through whole-local moves); definitions that are
        `Err(..)` aggregates or results of from_residual / err helpers are skipped; anything else -> None"""
        if depth > 6:
            return None
        out = []
        for (db, si, rv) in self.g.defs.get(l, []):
            if rv["k"] == "Aggregate" and rv.get("agg") == "Adt" and rv["adt"].endswith("result::Result"):
                if rv["variant"] == "Ok" and len(rv["ops"]) == 1:
                    out.append((rv["ops"][0], db))
                continue
            if rv["k"] == "Use" and _is_place_op(rv["op"]) and not rv["op"]["place"]["proj"]:
                sub = self.ok_alternatives(rv["op"]["place"]["local"], depth + 1)
                if sub is None:
                    return None
                out += sub
                continue
            if rv["k"] == "CallResult" and mir.callee_name(rv["term"]) in ("from_residual", "err", "parse_error"):
                continue
            return None
        return out or None

    # ------------------------------------------------------------------ the prover
    def le(self, op, at, hyp=frozenset(), depth=0):
        """op <= len(E) at block `at` ?  -> (bool, reason)"""
        if depth > 14:
            return False, "depth"
        d = self.describe(op) if isinstance(op, dict) else op
        return self.le_desc(d, at, hyp, depth)

    def le_desc(self, d, at, hyp, depth):
        k = d[0]
        if k == "const":
            return (d[1] == 0, "LE-0 const 0" if d[1] == 0 else "non-zero constant %r" % (d[1],))
        if k == "arg":
            nm = self.b["name"]
            if d[1] in PRE.get(nm, []):
                return True, "LE-ARG pre(%s) arg %d" % (nm, d[1])
            return False, "argument %d has no precondition" % d[1]
        if k == "len":
            s = self.slice_of(d[1])
            if s is not None:
                return True, "LE-0 length of a sub-slice of env"
            return False, "len of something that is not a sub-slice of env"
        if k == "multi":
            l = d[1]
            if l in hyp:
                return True, "LE-PHI hypothesis"
            why = []
            for (db, si, rv) in self.g.defs[l]:
                ok, w = self.le_def(rv, db, hyp | {l}, depth + 1)
                if not ok:
                    return False, "definition of _%d in bb%d: %s" % (l, db, w)
                why.append(w)
            return True, "LE-PHI[" + "; ".join(sorted(set(why))) + "]"
        if k == "payload":
            term, blk, proj = d[1], d[2], d[3]
            nm = mir.callee_name(term)
            env_i = self.contracts[nm]
            if nm in NO_POST or env_i is None:
                return False, "callee %s has no border contract" % nm
            s = self.slice_of(term["args"][env_i - 1])
            if s is None:
                return False, "contract callee %s is not given a sub-slice of env" % nm
            return True, "LE-PAY post(%s)" % nm
        if k == "alts":
            ws = []
            for o, blk in d[1]:
                ok, w = self.le(o, blk, hyp, depth + 1)
                if not ok:
                    return False, "alternative in bb%d: %s" % (blk, w)
                ws.append(w)
            return True, "ALT{" + " | ".join(ws) + "}"
        if k == "either":
            a, wa = self.le_desc(d[1], at, hyp, depth + 1)
            b_, wb = self.le(d[2][1], d[2][2], hyp, depth + 1)
            return (a and b_), "right_unwrap_or{%s | %s}" % (wa, wb)
        if k == "count":
            ok, w = self.count_le(d[1], d[2], None, at)
            return ok, w
        if k == "min":
            a, wa = self.le(d[1], d[3], hyp, depth + 1)
            if a:
                return True, "LE-MIN " + wa
            b_, wb = self.le(d[2], d[3], hyp, depth + 1)
            return b_, "LE-MIN " + wb
        if k == "diff":
            a, wa = self.le(d[1], d[3], hyp, depth + 1)
            return a, "LE-SUB " + wa
        if k == "sum":
            for x, o in ((d[2], d[1]), (d[1], d[2])):
                ok, w = self.fits(x, o, d[3], hyp, depth + 1)
                if ok:
                    return True, "LE-SUM " + w
            return False, "sum %s + %s: neither operand is known to fit behind the other" % (self.show(d[1]), self.show(d[2]))
        return False, "unrecognised value (%s)" % k

    def le_def(self, rv, blk, hyp, depth):
        if rv["k"] == "Use":
            return self.le(rv["op"], blk, hyp, depth)
        if rv["k"] == "CallResult":
            t = rv["term"]
            fake = {"k": "Copy", "place": {"local": t["dest"]["local"], "proj": []}}
            nm = mir.callee_name(t)
            if nm == "count":
                return self.count_le(t["args"][0], blk, None, blk)
            if nm in self.contracts:
                return self.le_desc(("payload", t, blk, ()), blk, hyp, depth)
            if nm == "len":
                return self.le_desc(("len", t["args"][0], blk), blk, hyp, depth)
            if nm == "min" and len(t["args"]) == 2:
                return self.le_desc(("min", t["args"][0], t["args"][1], blk), blk, hyp, depth)
            return False, "defined by call %s" % nm
        if rv["k"] == "UnaryOp" and rv["op"] == "PtrMetadata":
            return self.le_desc(("len", rv["e"], blk), blk, hyp, depth)
        return False, "definition kind %s" % rv["k"]

    def offset_matches(self, s, o, s_at, o_at):
        """slice s = E[lo..]: is lo the same value as o?  (o None = offset 0)"""
        if s is None or s[0] != "E" or s[2] is not None:
            return False
        lo = s[1]
        if lo is None:
            return o is None or self.root(o) == ("const", 0)
        if o is None:
            return self.root(lo) == ("const", 0)
        return self.same_value(lo, s_at, o, o_at)

    def count_le(self, chars_op, def_blk, o, at):
        """count(chars(S)) <= len(E[o..]) (o None: <= len(E), any offset accepted)"""
        key = self.strkey(chars_op)
        # F-PREFIX / suffix: S is the matched component of a dictionary match on a sub-slice
        r, p = self.g.resolve_operand(chars_op)
        src = self.match_source(chars_op)
        if src is not None:
            kind, term, blk, comp_ok = src
            s = self.slice_of(term["args"][1]) if len(term["args"]) > 1 else None
            if comp_ok and s is not None:
                if o is None:
                    return True, "LE-COUNT matched %s of %s" % (kind, mir.callee_name(term))
                if kind == "prefix" and self.offset_matches(s, o, blk, at):
                    return True, "F-PREFIX matched prefix of %s" % mir.callee_name(term)
        # F-GUARD
        for gk, data, truth, dblk in self.forced(at):
            if gk != "call" or not truth or mir.callee_name(data) != FULL_GUARD or len(data["args"]) != 2:
                continue
            if self.strkey(data["args"][1]) != key:
                continue
            s = self.slice_of(data["args"][0])
            if s is None:
                continue
            if o is None:
                return True, "LE-COUNT under starts_with_full"
            if self.offset_matches(s, o, dblk, at):
                return True, "F-GUARD starts_with_full"
        return False, "count(chars(%s)) is not covered by a full match%s" % (self.g.path_s(chars_op), "" if o is None else " at that offset")

    PEEL = ("chars", "collect", "deref", "as_str", "clone", "to_owned", "as_ref", "borrow", "from_iter", "to_string", "as_slice")

    def match_source(self, chars_op):
        """is the string the matched component of match_prefix_char_slice / match_suffix_char_slice ? -> (kind, term, blk, component_ok).
        The projection is kept relative to the success payload while wrappers (?, ok_or, clone, chars ...) are peeled."""
        r, p = self.g.resolve_operand(chars_op)
        p = list(p)
        for _ in range(12):
            if r[0] != "call":
                return None
            t = r[1]
            nm = mir.callee_name(t)
            if nm in ("match_prefix_char_slice", "match_suffix_char_slice"):
                kind = "prefix" if "prefix" in nm else "suffix"
                if p[:1] and p[0].startswith("@"):
                    p = p[2:]
                rty = self.ty(t["dest"]["local"])
                if "(std::string::String, std::string::String)" in rty:
                    ok = p == ["0" if kind == "prefix" else "1"]
                else:
                    ok = p == []
                return (kind, t, r[2], ok)
            if not t["args"]:
                return None
            if nm == "branch":
                if p[:2] != ["@Continue", "0"]:
                    return None
                p = p[2:]
            elif nm in ("ok_or", "unwrap", "expect"):
                if p[:1] and p[0] in ("@Ok", "@Some"):
                    p = p[2:]
            elif nm not in self.PEEL:
                return None
            r2, p2 = self.g.resolve_operand(t["args"][0])
            r, p = r2, list(p2) + p
        return None

    def fits(self, t_op, o_op, at, hyp, depth):
        """o + t <= len(E) at block `at`"""
        d = self.describe(t_op)
        k = d[0]
        if k == "count":
            return self.count_le(d[1], d[2], o_op, at)
        if k == "payload":
            term, blk, proj = d[1], d[2], d[3]
            nm = mir.callee_name(term)
            env_i = self.contracts[nm]
            s = self.slice_of(term["args"][env_i - 1]) if env_i else None
            if nm not in NO_POST and self.offset_matches(s, o_op, blk, at):
                return True, "F-PAY post(%s) on env[o..]" % nm
            return False, "payload of %s is not relative to that offset" % nm
        if k == "len":
            key = self.strkey(d[1])
            for gk, data, truth, dblk in self.forced(at):
                if gk == "call" and truth and mir.callee_name(data) == "starts_with" and "slice" in (mir.callee_path(data) or "") and len(data["args"]) == 2:
                    if self.strkey(data["args"][1]) == key and self.offset_matches(self.slice_of(data["args"][0]), o_op, dblk, at):
                        return True, "F-SLICE <[char]>::starts_with"
            return False, "len(%s) not covered by a slice starts_with at that offset" % self.g.path_s(d[1])
        if k == "const" and d[1] == 1:
            for gk, data, truth, dblk in self.forced(at):
                if gk != "bin":
                    continue
                # every spelling of `o < len(env)`: Lt(o,len)=true, Ge(o,len)=false, Gt(len,o)=true, Le(len,o)=false
                lt = {("Lt", True): ("l", "r"), ("Ge", False): ("l", "r"), ("Gt", True): ("r", "l"), ("Le", False): ("r", "l")}.get((data["op"], bool(truth)))
                if lt:
                    small, big = data[lt[0]], data[lt[1]]
                    rd = self.describe(big)
                    if rd[0] == "len" and self.slice_of(rd[1]) == ("E", None, None) and self.same_value(small, dblk, o_op, at):
                        return True, "F-ONE o < len(env)"
            return False, "+1 without a dominating `o < len(env)`"
        if k == "const" and d[1] == 0:
            return self.le(o_op, at, hyp, depth + 1)
        return False, "summand %s has no FITS generator" % self.show(t_op)

    def show(self, op):
        try:
            return self.sym.operand(op)
        except Exception:
            return "?"


def contracts_of(facts):
    out = {}
    for p, b in facts.mir.items():
        if MOD not in p or "{closure" in p:
            continue
        env = None
        for i in range(1, b["arg_count"] + 1):
            if b["locals"][i]["ty"] == ENV_TY:
                env = i
                break
        if env is not None and "usize" in b["locals"][0]["ty"]:
            out[b["name"]] = env
    return out


def returned_usizes(fn):
    """(block, operand, label) for every usize the function returns"""
    b, g = fn.b, fn.g
    out = []
    rty = b["locals"][0]["ty"]

    def agg_ops(rv, label):
        res = []
        for o in rv["ops"]:
            if _is_place_op(o) and not o["place"]["proj"]:
                t = b["locals"][o["place"]["local"]]["ty"]
                if t == "usize":
                    res.append((o, label))
                elif "usize" in t:
                    dd = g.single_def(o["place"]["local"])
                    for _ in range(6):          # through whole-local moves (the landing copy of a spliced helper's return slot)
                        if dd is not None and dd[2]["k"] == "Use" and _is_place_op(dd[2]["op"]) and not dd[2]["op"]["place"]["proj"]:
                            dd = g.single_def(dd[2]["op"]["place"]["local"])
                        else:
                            break
                    if dd is not None and dd[2]["k"] == "Aggregate":
                        res += agg_ops(dd[2], label + ".tuple")
                    else:
                        # a whole (value, border) payload handed on unchanged: must come from a contract call on a sub-slice of env
                        r, p = g.resolve_operand(o)
                        if r[0] == "call":
                            res.append((fn.payload(r[1], r[2], tuple(p)), label + " forwarded payload"))
                        else:
                            res.append((("unknown",), label + " forwarded value"))
        return res
    for bi in sorted(g.reach):
        if b["blocks"][bi]["cleanup"]:
            continue
        for st in b["blocks"][bi]["stmts"]:
            if st["k"] != "Assign" or st["place"]["local"] != 0 or st["place"]["proj"]:
                continue
            rv = st["rv"]
            if rv["k"] == "Use" and rty == "usize":
                out.append((bi, rv["op"], "value"))
            elif rv["k"] == "Aggregate":
                lab = rv.get("variant") or rv.get("agg")
                for o, l2 in agg_ops(rv, lab):
                    out.append((bi, o, l2))
            elif rv["k"] == "Use" and "usize" in rty and _is_place_op(rv["op"]):
                r, p = g.resolve_operand(rv["op"])
                out.append((bi, fn.payload(r[1], r[2], tuple(p)) if r[0] == "call" else ("unknown",), "moved value"))
        t = b["blocks"][bi]["term"]
        if t["k"] == "Call" and t["dest"]["local"] == 0 and not t["dest"]["proj"]:
            nm = mir.callee_name(t)
            if nm in fn.contracts:
                out.append((bi, ("payload", t, bi, ()), "forwarded " + nm))
    return out


def rule_B_LEN(ctx, floor_sites=20, floor_posts=14):
    ctx.rule("B-LEN", "assume/guarantee proof of the lexical parser's border invariant: every usize a segmenter returns is <= len(env) (post), "
             "start-position arguments are <= len(env) at every call (pre), and with these every slice bound env[a..] / env[..b] / env[a..b] "
             "(upper bound) is proved by the rules LE-0/ARG/PAY/COUNT/SUB/SUM/PHI/MIN and the FITS generators F-GUARD/PREFIX/PAY/SLICE/ONE "
             "(copy-resolved MIR dataflow with a same-value test for loop-carried cursors; no solver, nothing executed)")
    f = ctx.facts
    C = contracts_of(f)
    ctx.floor("functions under border contract", len(C), 12)
    n_sites = n_posts = n_pre = 0
    proved = []
    site_ok, post_ok = {}, {}
    ctx._b_len = (site_ok, post_ok)
    for p, b in sorted(f.mir.items()):
        if MOD not in p:
            continue
        fn = Fn(f, b, C)
        name = b["name"] if "{closure" not in p else p.rsplit("::", 2)[-2] + "::" + p.rsplit("::", 1)[-1]
        loc = lambda line: "%s:%s" % (b["span"]["file"], line)
        # ---- slice sites
        k_idx = 0
        for bi, t in fn.g.calls("index"):
            if b["blocks"][bi]["cleanup"] or len(t["args"]) != 2:
                continue
            if "[char]" not in (b["locals"][t["args"][0]["place"]["local"]]["ty"] if _is_place_op(t["args"][0]) else ""):
                continue
            rng = fn.range_of(t["args"][1])
            if rng is None:
                continue
            k_idx += 1
            key = "%s | slice #%d" % (name, k_idx)
            n_sites += 1
            if fn.env is None:
                res = RESIDUAL.get((name, "index")) or RESIDUAL.get((name.split("::")[0] + "::{closure#0}", "index"))
                ctx.ob("B-LEN", key + " (residual)", res is not None, "slice in a function without env argument and without a residual entry", loc(t["line"]))
                continue
            base = fn.slice_of(t["args"][0])
            if base is None:
                ctx.ob("B-LEN", key, False, "sliced value is not a sub-slice of env", loc(t["line"]))
                continue
            kind, a, e = rng
            if base == ("E", None, None):
                need = [x for x in (a, e) if x is not None]
                oks = [fn.le(x, bi) for x in need]
                ok = all(o for o, w in oks)
                ctx.ob("B-LEN", key, ok, "; ".join("%s: %s" % (fn.show(x), w) for x, (o, w) in zip(need, oks) if not o), loc(t["line"]))
                proved.append({"site": key, "rule": [w for o, w in oks]})
                site_ok[(p, bi)] = (ok, kind)
            else:
                # slicing a sub-slice s = E[..k] / E[o..]: bounds relative to s.  Supported: s = E[..k] sliced from r with r a payload on s (r <= len(s))
                ok, why = False, "slice of a sub-slice"
                if kind == "from" and a is not None:
                    d = fn.describe(a)
                    if d[0] == "payload":
                        nm = mir.callee_name(d[1])
                        s2 = fn.slice_of(d[1]["args"][C[nm] - 1])
                        ok = s2 == base
                        why = "payload of %s on the same sub-slice" % nm
                ctx.ob("B-LEN", key, ok, why, loc(t["line"]))
        # ---- post
        if b["name"] in C and "{closure" not in p and b["name"] not in NO_POST:
            for bi, op, label in returned_usizes(fn):
                n_posts += 1
                if isinstance(op, tuple):
                    ok, w = fn.le_desc(op, bi, frozenset(), 0)
                    shown = label
                else:
                    ok, w = fn.le(op, bi)
                    shown = fn.show(op)
                ctx.ob("B-LEN", "%s | post: returned %s <= len(env)" % (name, label), ok, "%s: %s" % (shown, w), loc(b["span"]["line"]))
                post_ok[p] = post_ok.get(p, True) and ok
                proved.append({"post": "%s %s" % (name, label), "rule": w})
        # ---- pre at call sites
        if fn.env is not None:
            for bi, t in fn.g.calls():
                nm = mir.callee_name(t)
                if nm in PRE and nm in C:
                    s = fn.slice_of(t["args"][C[nm] - 1])
                    for ai in PRE[nm]:
                        n_pre += 1
                        arg = t["args"][ai - 1]
                        if s == ("E", None, None):
                            ok, w = fn.le(arg, bi)
                        elif s is not None and s[0] == "E" and s[1] is None and s[2] is not None:
                            # callee env = E[..k]: need arg <= k
                            ok, w = (fn.root(arg) == ("const", 0)), "start 0"
                        else:
                            ok, w = False, "callee env is not env or env[..k]"
                        ctx.ob("B-LEN", "%s | pre(%s) arg %d <= len(callee env)" % (name, nm, ai), ok, "%s: %s" % (fn.show(arg), w), loc(t["line"]))
    ctx.floor("slice sites examined by B-LEN", n_sites, floor_sites)
    ctx.floor("returned borders examined by B-LEN", n_posts, floor_posts)
    ctx.sample({"rule": "B-LEN", "contracts": sorted(C), "slice_sites": n_sites, "posts": n_posts, "pre_checks": n_pre, "proofs": proved[:12]})
    ctx.extra["b_len_proofs"] = proved


# ----------------------------------------------------------------------------
# L-ONCE: no routine of the recursive descent is run twice over the same region on one path
def rule_L_ONCE(ctx):
    ctx.rule("L-ONCE", "bounded-time clause (necessary condition): inside the recursion cycle of the lexical parser no function (its closures included) "
             "calls the same member of the cycle twice on the same slice along one path -- a second attempt over the same region doubles the "
             "work per nesting level (2^depth).  Sites with different callees, different sub-slices (a cursor redefined in between) or on "
             "mutually exclusive paths are fine")
    f = ctx.facts
    cg = mir.callgraph(f)
    nodes = {p for p in f.mir if MOD in p}
    comps = cg.sccs(nodes)
    cyc = set()
    for c in comps:
        cyc |= set(c)
    ctx.floor("functions in the lexical recursion cycle", len(cyc), 3)
    C = contracts_of(f)
    names = {f.mir[p]["name"] for p in cyc if "{closure" not in p}
    n_sites = 0
    for p in sorted(cyc):
        if "{closure" in p:
            continue
        b = f.mir[p]
        fn = Fn(f, b, C)
        ctx.fn(b)
        sites = []      # (callee, kind, slice, block, where)
        for bi, t in fn.g.calls():
            nm = mir.callee_name(t)
            if nm in names and (mir.callee_path(t) or "") in cyc or (nm in names and any(f.mir[q]["name"] == nm for q in cyc)):
                env_i = C.get(nm)
                if env_i is None:
                    continue
                s = fn.slice_of(t["args"][env_i - 1])
                sites.append((nm, s, bi, "body", t))
        # closures defined inside this function: their calls on a captured &[char] count as calls on the whole env
        for q, cb in f.mir.items():
            if q.startswith(p + "::{closure"):
                g2 = mir.cfg(cb)
                for bi, t in g2.calls():
                    nm = mir.callee_name(t)
                    if nm in names and C.get(nm):
                        a = t["args"][C[nm] - 1]
                        r, pr = g2.resolve_operand(a)
                        captured = r[0] == "arg" and r[1] == 1
                        sites.append((nm, ("E", None, None) if captured else None, None, "closure", t))
        n_sites += len(sites)
        bad = []
        for i, (n1, s1, b1, w1, t1) in enumerate(sites):
            for (n2, s2, b2, w2, t2) in sites[i + 1:]:
                if n1 != n2 or s1 is None or s2 is None:
                    continue
                same = False
                if s1 == ("E", None, None) and s2 == ("E", None, None):
                    same = True
                elif s1[0] == "E" and s2[0] == "E" and s1[2] is None and s2[2] is None and s1[1] is not None and s2[1] is not None and b1 is not None and b2 is not None:
                    same = fn.same_value(s1[1], b1, s2[1], b2)
                if not same:
                    continue
                if w1 == "closure" or w2 == "closure":
                    ordered = True
                else:
                    ordered = b2 in fn.g.reachable_from(b1) or b1 in fn.g.reachable_from(b2)
                if ordered:
                    bad.append("%s called at line %s and again at line %s on the same slice" % (n1, t1["line"], t2["line"]))
        ctx.ob("L-ONCE", "%s: each member of the recursion cycle is tried at most once per region on a path" % b["name"], not bad, "; ".join(bad),
               "%s:%s" % (b["span"]["file"], b["span"]["line"]))
    ctx.floor("recursive call sites examined by L-ONCE", n_sites, 6)


class _Collect:
    """obligation sink used when another rule only needs B-LEN's verdicts"""
    def __init__(self, facts):
        self.facts, self.extra, self.failed = facts, {}, []

    def rule(self, *a, **k): pass
    def fn(self, *a, **k): pass
    def sample(self, *a, **k): pass
    def floor(self, *a, **k): pass

    def ob(self, rule, key, ok, why="", site=None):
        if not ok:
            self.failed.append(key)


def proofs(facts):
    """(site_ok, post_ok): {(body path, block): (proved?, range kind)} for the slice sites of the lexical parser and {body path: all returned
    borders proved <= len(env)}.  Used by P-GUARD / R-BORDER: a site B-LEN PROVES on the current code needs no reviewed reference."""
    if not hasattr(facts, "_b_len_proofs"):
        c = _Collect(facts)
        try:
            rule_B_LEN(c)
            facts._b_len_proofs = getattr(c, "_b_len", ({}, {}))
        except Exception:
            facts._b_len_proofs = ({}, {})
    return facts._b_len_proofs
