"""L-PROGRESS: every loop and every recursion cycle reachable from the parser entry points makes progress."""
import mir, guards as G
from panics import fname, ENUM_STATE, writes_head

# keywords that may be empty in a shipped table (T-NONEMPTY exempts them): skipping them is not progress
MAYBE_EMPTY = {"sentence.stamp_brackets.0", "sentence.stamp_brackets.1", "atom.prefix_word"}

# reviewed exceptions: progress that follows from a value check a path-insensitive analysis cannot see
EXC_ADV = {
    "parse_atom": "Ok => the prefix is the non-empty placeholder prefix or the name is non-empty (name_buffer.is_empty() => Err), i.e. >= 1 head_step_one / non-empty skip happened",
}
EXC_STEP = {
    ("segment_term_set", "segment_term"): "segment_term Ok => returned length >= 1: segment_atom rejects empty prefix+name, every other form starts with a non-empty bracket (T-NONEMPTY on the lexical tables)",
    ("segment_compound", "segment_term"): "same: returned term length >= 1",
}


def kw_field(g, op):
    r, p = g.resolve_operand(op)
    for i, x in enumerate(p):
        if x in ("space", "atom", "compound", "statement", "sentence", "task"):
            return ".".join(p[i:])
    if r[0] == "arg":
        return "param"
    return None


class EnumAdvance:
    """ADV_ok(f): on every non-error path from entry to return the cursor was advanced by a non-empty amount
    (greatest fixpoint over the enum parser's functions; head_move / plain stores to head reset the fact)"""

    def __init__(self, ctx):
        self.ctx = ctx
        self.f = ctx.facts
        self.bodies = {p: b for p, b in self.f.mir.items() if "impl_enum::parser" in p and self._sarg(b) is not None}
        self.adv = {p: True for p in self.bodies}
        self.kind = {}
        for p, b in self.bodies.items():
            self.kind[p] = self._primitive(b)
        for p in self.bodies:
            if self.kind[p] == "move":
                self.adv[p] = False
        self.exc_used = {}

    def _sarg(self, b):
        for i in range(1, b["arg_count"] + 1):
            t = b["locals"][i]["ty"]
            if ENUM_STATE in t and t.startswith("&mut"):
                return i
        return None

    def _primitive(self, b):
        """'advance-arg' (head += arg), 'move' (head = arg) or None"""
        g = mir.cfg(b)
        sa = self._sarg(b)
        for bi in g.reach:
            for s in b["blocks"][bi]["stmts"]:
                if s["k"] == "Assign" and s["place"]["proj"]:
                    r, p = g.resolve_place(s["place"])
                    if r == ("arg", sa) and p == ["head"]:
                        sym = G.Sym(b)
                        e = sym.rvalue(s["rv"])
                        sp = G._split(e[:-2] if e.endswith(".0") else e)
                        if sp and sp[0] == "Add" and "a%d.head" % sa in sp[1]:
                            return "advance-arg"
                        return "move"
        return None

    def _return_bound(self, b, l, depth=0):
        """local `l` is the return slot, or (the return slot of a spliced helper, see lib/inline.py) a local whose every use is a whole move
        into a return-bound local"""
        if l == 0:
            return True
        if depth > 4:
            return False
        uses = moves = 0
        targets = []
        for bl in b["blocks"]:
            for s_ in bl["stmts"]:
                if s_["k"] != "Assign":
                    continue
                rv = s_["rv"]
                ops = mir._operands(rv)
                for o in ops:
                    if o["k"] in ("Copy", "Move") and o["place"]["local"] == l:
                        uses += 1
                        if rv["k"] == "Use" and not o["place"]["proj"] and not s_["place"]["proj"]:
                            moves += 1
                            targets.append(s_["place"]["local"])
                if rv["k"] in ("Ref", "CopyForDeref", "RawPtr", "Discriminant") and rv["place"]["local"] == l:
                    uses += 1
            t_ = bl["term"]
            for a in (t_.get("args") or []):
                if a["k"] in ("Copy", "Move") and a["place"]["local"] == l:
                    uses += 1
        return uses > 0 and uses == moves and all(self._return_bound(b, x, depth + 1) for x in targets)

    def block_effect(self, p, b, g, sa, bi):
        """'A' advance, 'U' reset, 'E' error-return path, None"""
        bl = b["blocks"][bi]
        for s in bl["stmts"]:
            if s["k"] == "Assign" and not s["place"]["proj"] and s["place"]["local"] == 0:
                rv = s["rv"]
                if rv["k"] == "Aggregate" and rv.get("agg") == "Adt" and rv["variant"] == "Err":
                    return "E"
        t = bl["term"]
        if t["k"] != "Call":
            return None
        nm = mir.callee_name(t)
        cal = mir.callee_path(t)
        if nm in ("err", "from_residual") and not t["dest"]["proj"] and self._return_bound(b, t["dest"]["local"]):
            return "E"
        if cal in self.bodies and any(a["k"] in ("Copy", "Move") and self._derives(g, a, sa) for a in t["args"]):
            k = self.kind.get(cal)
            if k == "move":
                return "U"
            if k == "advance-arg":
                a = t["args"][1]
                if a["k"] == "Const":
                    return "A" if (a.get("v") or 0) > 0 else None
                sym = G.Sym(b)
                e = sym.operand(a)
                # head_skip: head_step(kw.chars().count())
                if e.startswith("count(chars("):
                    inner = t["args"][1]
                    r, pth = g.resolve_operand(inner)
                    # resolve the keyword argument of chars()
                    kwf = None
                    cur = r
                    for _ in range(4):
                        if cur[0] == "call" and mir.callee_name(cur[1]) in ("count", "chars"):
                            nxt = g.resolve_operand(cur[1]["args"][0])
                            if mir.callee_name(cur[1]) == "chars":
                                kwf = kw_field(g, cur[1]["args"][0])
                                break
                            cur = nxt[0]
                        else:
                            break
                    return "A" if kwf not in MAYBE_EMPTY else None
                return None
            if self.adv.get(cal):
                # callee advances on its Ok paths; keyword-skipping wrappers: check the keyword they are given
                if nm in ("head_skip", "head_skip_and_spaces", "head_skip_after_spaces"):
                    kwf = kw_field(g, t["args"][1])
                    return "A" if kwf not in MAYBE_EMPTY else None
                return "A"
        return None

    def _derives(self, g, op, sa, depth=0):
        if op["k"] not in ("Copy", "Move"):
            return False
        l = op["place"]["local"]
        if l == sa:
            return True
        if depth > 8:
            return False
        for d in g.defs.get(l, []):
            rv = d[2]
            if rv["k"] in ("Use", "Cast") and self._derives(g, rv["op"], sa, depth + 1):
                return True
            if rv["k"] in ("Ref", "CopyForDeref", "RawPtr") and self._derives(g, {"k": "Copy", "place": rv["place"]}, sa, depth + 1):
                return True
            if rv["k"] == "Aggregate" and any(self._derives(g, o, sa, depth + 1) for o in rv["ops"]):
                return True
        return False

    def analyse(self, p):
        b = self.bodies[p]
        if fname(b, p).split("::")[-1] in EXC_ADV:
            self.exc_used[b["name"]] = EXC_ADV[b["name"]]
            return True
        if self.kind[p] == "advance-arg":
            return True   # decided at call sites by the argument
        if self.kind[p] == "move":
            return False
        g = mir.cfg(b)
        sa = self._sarg(b)
        # may-analysis: can a Return be reached in state U (not advanced) on a non-error path?
        IN = {0: {"U"}}
        work = [0]
        seen = set()
        bad = False
        while work:
            bi = work.pop()
            st = set(IN[bi])
            if b["blocks"][bi]["cleanup"]:
                continue
            eff = self.block_effect(p, b, g, sa, bi)
            if eff == "A":
                st = {"A"}
            elif eff == "U":
                st = {"U"}
            elif eff == "E":
                st = {"A"}     # error path: irrelevant
            if b["blocks"][bi]["term"]["k"] == "Return" and "U" in st:
                bad = True
            for sx in g.succ[bi]:
                old = IN.get(sx, set())
                new = old | st
                if new != old or sx not in seen:
                    IN[sx] = new
                    seen.add(sx)
                    work.append(sx)
        return not bad

    def run(self):
        for _ in range(40):
            changed = False
            for p in sorted(self.bodies):
                v = self.analyse(p)
                if v != self.adv[p] and not v:
                    self.adv[p] = False
                    changed = True
            if not changed:
                break
        return self.adv


def loop_progress_blocks(ctx, p, b, g, blocks, adv=None, eadv=None):
    """blocks of a loop that guarantee progress when executed"""
    out = {}
    sym = None
    for bi in sorted(blocks):
        bl = b["blocks"][bi]
        t = bl["term"]
        if t["k"] == "Call":
            nm = mir.callee_name(t)
            cal = mir.callee_path(t)
            if nm == "next":
                out[bi] = "iterator step"
                continue
            if eadv is not None and cal in eadv.bodies:
                sa = eadv._sarg(b)
                if sa is not None and eadv.block_effect(p, b, g, sa, bi) == "A":
                    out[bi] = "cursor advance via %s" % nm
                    continue
        for s in bl["stmts"]:
            if s["k"] != "Assign" or s["place"]["proj"]:
                continue
            l = s["place"]["local"]
            rv = s["rv"]
            # x = (tmp.0) with tmp = Add/Sub(x, y)
            src = None
            if rv["k"] == "Use" and rv["op"]["k"] in ("Copy", "Move"):
                ds = g.defs.get(rv["op"]["place"]["local"], [])
                if len(ds) == 1 and ds[0][2]["k"] == "BinaryOp":
                    src = ds[0][2]
            elif rv["k"] == "BinaryOp":
                src = rv
            if not src or not (src["op"].startswith("Add") or src["op"].startswith("Sub")):
                continue
            ops = [src["l"], src["r"]]
            selfop = [o for o in ops if o["k"] in ("Copy", "Move") and o["place"]["local"] == l and not o["place"]["proj"]]
            if len(selfop) != 1:
                continue
            other = [o for o in ops if o is not selfop[0]][0]
            if other["k"] == "Const" and (other.get("v") or 0) >= 1:
                out[bi] = "counter step by %s" % other.get("v")
                continue
            if sym is None:
                sym = G.Sym(b)
            e = sym.operand(other)
            if e.startswith("count(chars("):
                out[bi] = "step by a keyword length (non-empty by T-NONEMPTY)"
                continue
            # returned length of a recursive segment call
            for (fn_, callee), why in EXC_STEP.items():
                if b["name"] == fn_ and (callee + "(") in e:
                    out[bi] = "exception: " + why
                    ctx.extra.setdefault("progress_exceptions_used", {})["%s step by result of %s" % (fn_, callee)] = why
    return out


def has_cycle(nodes, succ):
    color = {}

    def dfs(u):
        color[u] = 1
        for v in succ.get(u, ()):
            if v not in nodes:
                continue
            if color.get(v) == 1:
                return True
            if color.get(v) is None and dfs(v):
                return True
        color[u] = 2
        return False
    import sys
    sys.setrecursionlimit(10000)
    return any(color.get(n) is None and dfs(n) for n in nodes)


def rule_L_PROGRESS(ctx, reach, floor_loops, enum=True):
    ctx.rule("L-PROGRESS", "every natural loop reachable from the entry points has a progress witness on every path around it (iterator "
             "step, counter step, cursor advance by a non-empty keyword or by a callee that advances on its Ok paths); one correlation is "
             "modelled (re-test of can_consume with no intervening cursor move exits the loop); every recursion cycle contains a call that is "
             "preceded on all paths by such progress (enum parser) or passes a strictly shorter sub-slice (lexical parser)")
    f = ctx.facts
    eadv = None
    if enum:
        eadv = EnumAdvance(ctx)
        adv = eadv.run()
        ctx.extra["advances_on_ok"] = sorted(f.mir[p]["name"] for p, v in adv.items() if v and eadv.kind[p] is None)
        ctx.extra.setdefault("progress_exceptions_used", {}).update({"%s advances on Ok" % k: v for k, v in eadv.exc_used.items()})
    n = 0
    for p in sorted(reach):
        b = f.mir.get(p)
        if not b:
            continue
        g = mir.cfg(b)
        for h, blocks, tails in g.loops():
            n += 1
            prog = loop_progress_blocks(ctx, p, b, g, blocks, eadv=eadv)
            rest = set(blocks) - set(prog)
            succ = {u: [v for v in g.succ[u] if v in rest] for u in rest}
            cyc = has_cycle(rest, succ)
            why = ""
            if cyc:
                # modelled correlation: a cycle whose only blocks re-test can_consume() without moving the cursor terminates
                if enum and cycle_only_retests(ctx, p, b, g, rest, eadv):
                    cyc = False
                    why = "re-test correlation"
            ctx.ob("L-PROGRESS", "%s loop #%d" % (fname(b, p), sum(1 for hh, _, _ in g.loops() if hh <= h)), not cyc,
                   "a path around the loop (header bb%d, line %s) has no progress witness; witnesses found: %s" % (h, b["blocks"][h]["term"].get("line"), sorted(set(prog.values()))),
                   "%s:%s" % (b["span"]["file"], b["blocks"][h]["term"].get("line")))
            ctx.sample({"rule": "L-PROGRESS", "function": fname(b, p), "witnesses": sorted(set(prog.values()))[:3]})
    ctx.floor("loops analysed", n, floor_loops)
    return eadv


def cycle_only_retests(ctx, p, b, g, rest, eadv):
    """the remaining cycle contains no cursor-moving call and contains a can_consume() test whose false edge leaves the loop:
    going round without moving the cursor re-evaluates the same predicate with the same result => the path that skipped the
    progress block (because can_consume() was false) exits at the next header test"""
    W = writes_head(ctx)
    tests = 0
    for bi in rest:
        t = b["blocks"][bi]["term"]
        if t["k"] == "Call":
            if mir.callee_path(t) in W and mir.callee_name(t) not in ("head_skip_spaces",):
                return False
            if mir.callee_name(t) == "can_consume":
                tests += 1
    return tests >= 2


def rule_L_RECURSION_enum(ctx, reach, eadv):
    f = ctx.facts
    cg = mir.callgraph(f)
    nodes = set(p for p in reach if "impl_enum::parser" in p)
    sccs = cg.sccs(nodes)
    ctx.extra["enum_recursion_sccs"] = [[f.mir[p]["name"] for p in c] for c in sccs]
    for comp in sccs:
        comp = set(comp)
        edges = {}
        for p in comp:
            b = f.mir[p]
            g = mir.cfg(b)
            sa = eadv._sarg(b)
            prog = set()
            for bi in g.reach:
                if sa is not None and eadv.block_effect(p, b, g, sa, bi) == "A":
                    prog.add(bi)
            noprog = g.reachable_from(0, avoid=prog)
            for bi, t in g.calls():
                cal = mir.callee_path(t)
                if cal in comp:
                    if bi in noprog and bi not in prog:
                        edges.setdefault(p, set()).add(cal)
            # closures constructed here and called later count as calls
            for c in cg.edges.get(p, ()):
                if c in comp and f.mir[c]["defkind"] == "Closure":
                    edges.setdefault(p, set()).add(c) if all(
                        bi in noprog for bi, t in g.calls() if mir.callee_path(t) == c) else None
        cyc = has_cycle(comp, edges)
        ctx.ob("L-PROGRESS", "recursion cycle {%s}" % ", ".join(sorted(f.mir[p]["name"] if f.mir[p]["defkind"] != "Closure" else "closure" for p in comp)),
               not cyc, "a recursive cycle can be traversed without consuming input: edges without prior progress %s" %
               {f.mir[k]["name"]: sorted(f.mir[v]["name"] for v in vs) for k, vs in edges.items()})


def rule_L_RECURSION_lexical(ctx, reach):
    f = ctx.facts
    cg = mir.callgraph(f)
    nodes = set(p for p in reach if "impl_lexical::parser" in p)
    sccs = cg.sccs(nodes)
    ctx.extra["lexical_recursion_sccs"] = [[f.mir[p]["name"] for p in c] for c in sccs]
    for comp in sccs:
        comp = set(comp)
        edges = {}
        for p in comp:
            b = f.mir[p]
            g = mir.cfg(b)
            sym = G.Sym(b)
            for bi, t in g.calls():
                cal = mir.callee_path(t)
                if cal not in comp:
                    continue
                # the env argument: &[char]
                shrinks = False
                for a in t["args"]:
                    if a["k"] in ("Copy", "Move") and b["locals"][a["place"]["local"]]["ty"] == "&[char]":
                        e = sym.operand(a)
                        if e.startswith("index(") and "RangeFrom{" in e and "count(" in e:
                            shrinks = True
                if not shrinks:
                    edges.setdefault(p, set()).add(cal)
        cyc = has_cycle(comp, edges)
        ctx.ob("L-PROGRESS", "lexical recursion cycle {%s}" % ", ".join(sorted(f.mir[p]["name"] for p in comp)), not cyc,
               "a recursive cycle passes its whole slice on: edges that do not shrink the slice %s" %
               {f.mir[k]["name"]: sorted(f.mir[v]["name"] for v in vs) for k, vs in edges.items()})


def _err_successors(b, g, bi):
    """blocks entered when the Result / Option returned by the call in block bi is Err / None (direct match or `?`)"""
    t = b["blocks"][bi]["term"]
    if t["k"] != "Call" or t.get("target") is None:
        return []
    tracked, discrs = {t["dest"]["local"]}, set()
    cur = t["target"]
    for _ in range(8):
        bl = b["blocks"][cur]
        for s in bl["stmts"]:
            if s["k"] != "Assign" or s["place"]["proj"]:
                continue
            rv = s["rv"]
            if rv["k"] == "Discriminant" and rv["place"]["local"] in tracked and not [e for e in rv["place"]["proj"] if e["k"] != "Deref"]:
                discrs.add(s["place"]["local"])
            elif rv["k"] == "Use" and rv["op"]["k"] in ("Copy", "Move") and rv["op"]["place"]["local"] in tracked and not rv["op"]["place"]["proj"]:
                tracked.add(s["place"]["local"])
            elif rv["k"] == "Use" and rv["op"]["k"] in ("Copy", "Move") and rv["op"]["place"]["local"] in discrs:
                discrs.add(s["place"]["local"])
        tt = bl["term"]
        if tt["k"] == "Call" and mir.callee_name(tt) == "branch" and tt["args"] and tt["args"][0]["k"] in ("Copy", "Move") \
                and tt["args"][0]["place"]["local"] in tracked and tt.get("target") is not None:
            tracked.add(tt["dest"]["local"])
            cur = tt["target"]
            continue
        if tt["k"] == "SwitchInt" and tt["discr"]["k"] in ("Copy", "Move") and tt["discr"]["place"]["local"] in discrs:
            ok0 = [tb for v, tb in tt["targets"] if v == 0]
            return [x for x in set([tb for v, tb in tt["targets"] if v != 0] + [tt["otherwise"]]) if x not in ok0
                    and b["blocks"][x]["term"]["k"] != "Unreachable"]
        if tt["k"] == "Goto":
            cur = tt["target"]
            continue
        break
    return []


def rule_L_ONCE_enum(ctx, reach, eadv):
    ctx.rule("L-ONCE", "bounded-time clause (necessary condition) for the cursor-based enum parser: inside a recursion cycle, after a call of a "
             "cycle member has FAILED (Err edge of its result) no member of the cycle is called again before the cursor has advanced (the enum parser "
             "dispatches on keyword tests, it never tries an alternative after a failed recursive attempt) -- a retry over the same region doubles "
             "the work per nesting level")
    f = ctx.facts
    cg = mir.callgraph(f)
    nodes = set(p for p in reach if "impl_enum::parser" in p)
    n = 0
    for comp in cg.sccs(nodes):
        comp = set(comp)
        for p in sorted(comp):
            b = f.mir[p]
            g = mir.cfg(b)
            sa = eadv._sarg(b)
            # only unconditional cursor advances count here: a fallible callee that "advances on Ok" says nothing about its Err edge
            prog = set()
            for bi in g.reach:
                if sa is not None and eadv.block_effect(p, b, g, sa, bi) == "A":
                    tt = b["blocks"][bi]["term"]
                    rty = b["locals"][tt["dest"]["local"]]["ty"] if tt["k"] == "Call" else ""
                    if not rty.startswith("std::result::Result") and not rty.startswith("std::option::Option"):
                        prog.add(bi)
            bad = []
            for bi, t in g.calls():
                cal = mir.callee_path(t)
                if cal not in comp:
                    continue
                n += 1
                for e in _err_successors(b, g, bi):
                    after = g.reachable_from(e, avoid=tuple(prog))
                    # closures of the cycle that are built on the way (handed to or_else / map_err ...) count as calls
                    for bj in sorted(after):
                        for st in b["blocks"][bj]["stmts"]:
                            if st["k"] == "Assign" and st["rv"]["k"] == "Aggregate" and st["rv"].get("agg") == "Closure" and st["rv"].get("def") in comp:
                                bad.append("%s fails at line %s and a closure that re-enters the cycle is built at line %s without cursor progress"
                                           % (mir.callee_name(t), t["line"], st["line"]))
                    for bj, t2 in g.calls():
                        if bj in after and (mir.callee_path(t2) in comp or any(a["k"] == "Const" and a.get("closure") in comp for a in t2["args"])):
                            bad.append("%s fails at line %s and %s is tried at line %s without cursor progress" % (mir.callee_name(t), t["line"], mir.callee_name(t2), t2["line"]))
            ctx.ob("L-ONCE", "%s: a failed member of the recursion cycle is not retried over the same region" % fname(b, p), not bad, "; ".join(sorted(set(bad))),
                   "%s:%s" % (b["span"]["file"], b["span"]["line"]))
    ctx.floor("recursive call sites examined by L-ONCE (enum)", n, 4)
