"""Naming-law lints over the resolved HIR (found necessary by the automatic mutation analysis: one-token "sibling" slips such as
truth<->budget, stamp<->punctuation, left<->right, .0<->.1 were invisible wherever no table/constructor map covered the code).

R-ROLE   a function whose NAME carries exactly one member of a role family (truth/budget/stamp/punctuation, judgement/goal/question/quest,
         past/present/future/fixed, extension/intension, frequency/confidence, priority/durability/quality, left/right, subject/predicate,
         prefix/suffix) mentions no OTHER member of that family in callee names, field names, resolved paths, type arguments or local names
         (reviewed exceptions listed with reasons); functions of an `impl .. for <Role type>` inherit the role of the type.
         Expression level: `callee_<role>(.. <other role> ..)`, `parse::<Role>(&x.<other role>)`, struct-literal / pattern field
         `<role>_x: <other role>` are flagged too.
A-NAMES  an argument that is a plain local named like a DIFFERENT parameter of the callee than the one it is passed for (swapped arguments).
K-NAMES  functions named after several members of an ordered family (get_frequency_confidence, set_frequency_confidence, ...) touch the
         members in name order, each exactly once; tuple impls return the member's ordinal field."""
import re
import hir
from hir import strip, field_path

FAMILIES = {
    "item": ["truth", "budget", "stamp", "punctuation"],
    "punct": ["judgement", "goal", "question", "quest"],
    "tense": ["past", "present", "future", "fixed"],
    "ei": ["extension", "intension"],
    "fc": ["frequency", "confidence"],
    "pdq": ["priority", "durability", "quality"],
    "lr": ["left", "right"],
    "sp": ["subject", "predicate"],
    "ps": ["prefix", "suffix"],
    "tc": ["predictive", "concurrent", "retrospective"],
    "vars": ["independent", "dependent", "query"],
}
MODULES = ("conversion::", "enum_narsese::", "lexical::", "api::")
# (function name, family) -> reason: the function legitimately handles several members
EXCEPTIONS = {
    ("from_punctuation", "item"): "builds a sentence of the given punctuation from term, truth and stamp parameters",
    ("segment_brackets_prefix", "ps"): "segments a prefix item by its closing bracket (the pair's suffix side)",
    ("segment_brackets_suffix", "ps"): "segments a suffix item by its opening bracket (the pair's prefix side)",
    ("segment_some_prefix", "ps"): "",
    ("segment_some_suffix", "ps"): "",
    ("new_equivalence_retrospective", "tc"): "sugar: retrospective equivalence IS the predictive one with swapped operands (checked exactly by M-DERIVED)",
}
# reviewed intentional argument permutations: (caller, callee)
SWAP_EXCEPTIONS = {("new_equivalence_retrospective", "new_equivalence_predictive"): "the documented operand swap of the sugar (M-DERIVED)"}


def toks(name):
    return [t.lower() for t in re.findall(r"[A-Za-z][a-z0-9]*", (name or "").replace("_", " "))]


def fam_members(tokens, fam):
    return [m for m in FAMILIES[fam] if m in tokens]


def mentions(node):
    """(kind, identifier, line) of every role-bearing identifier under node"""
    out = []
    for n in hir.walk(node):
        k = n.get("k")
        if k == "MethodCall":
            out.append(("call", n["method"], n.get("line")))
            d = n.get("def") or ""
            # turbofish / inferred type argument of parse::<T>
            if n["method"] == "parse" and n.get("ty"):
                out.append(("type", n["ty"].split("<")[-1] if False else n["ty"], n.get("line")))
        elif k == "Call":
            c = hir.callee_name(n)
            if c:
                out.append(("call", c, n.get("line")))
        elif k == "Field":
            out.append(("field", n.get("name") or "", n.get("line")))
        elif k == "Path":
            p = n["path"]
            if p.get("res") == "def":
                out.append(("path", (p.get("def") or "").rsplit("::", 1)[-1], n.get("line")))
            elif p.get("res") == "local":
                out.append(("local", p["name"], n.get("line")))
        elif k == "Struct":
            for fd in n.get("fields", []):
                out.append(("field", fd["name"], n.get("line")))
        elif k == "Block":
            # names of `let` bindings (a mis-named binding silently stops shadowing the value it was meant to replace)
            for st_ in n.get("stmts", []):
                if st_["k"] == "Let":
                    for bn in all_bindings(st_["pat"]):
                        out.append(("binding", bn, st_.get("line")))
    return out


def all_bindings(p):
    out = []
    if not isinstance(p, dict):
        return out
    if p.get("k") == "Binding":
        out.append(p["name"])
        if isinstance(p.get("sub"), dict):
            out += all_bindings(p["sub"])
    for key in ("pat",):
        if isinstance(p.get(key), dict):
            out += all_bindings(p[key])
    for q in p.get("pats", []) or []:
        out += all_bindings(q)
    for fd in p.get("fields", []) or []:
        out += all_bindings(fd.get("pat"))
    return out


def pattern_fields(node):
    out = []

    def pw(p):
        if not isinstance(p, dict):
            return
        if p.get("k") == "Struct":
            for fd in p.get("fields", []):
                out.append(fd["name"])
                pw(fd["pat"])
        for key in ("pat", "sub"):
            if isinstance(p.get(key), dict):
                pw(p[key])
        for q in p.get("pats", []) or []:
            pw(q)
    for n in hir.walk(node):
        if n.get("k") == "Match":
            for a in n["arms"]:
                pw(a["pat"])
        if n.get("k") == "LetExpr":
            pw(n.get("pat"))
    return out


def own_roles(it):
    """role tokens a function carries: its name, plus the self type of its impl (Truth / Budget / Stamp / Punctuation ...)"""
    t = toks(it["name"])
    st = ((it.get("impl") or {}).get("self_ty") or "")
    if st:
        inner = st.split("Result<", 1)[1] if st.startswith("std::result::Result<") else st
        head = inner.split("<")[0].split(",")[0]
        t = t + toks(head.rsplit("::", 1)[-1])
    return t


def rule_R_ROLE(ctx, modules=MODULES):
    ctx.rule("R-ROLE", "role consistency (naming law): a function named for exactly one member of a role family -- or implemented for that member's "
             "type -- mentions no other member of the family (callees, fields, paths, type arguments, locals); at expression level a callee "
             "named for one member is not handed something named for another, `parse::<Role>` is given the field of the same role, and "
             "a struct-literal field named for one member is not initialised from a local named for another")
    f = ctx.facts
    n_fn = 0
    for p, it in sorted(f.hir.items()):
        if it.get("body") is None or not any(m in p for m in modules) or "::tests" in p or "::test" in p or it["name"].startswith("test"):
            continue
        n_fn += 1
        nt = own_roles(it)
        ms = mentions(it["body"])
        site = "%s:%s" % (it["span"]["file"], it["span"]["line"])
        for fam in FAMILIES:
            own = sorted(set(fam_members(nt, fam)))
            if len(own) != 1 or (it["name"], fam) in EXCEPTIONS:
                continue
            other = {}
            for kind, name, line in ms:
                for m in fam_members(toks(name), fam):
                    if m != own[0]:
                        other.setdefault("%s %s" % (kind, name), line)
            for pf in pattern_fields(it["body"]):
                for m in fam_members(toks(pf), fam):
                    if m != own[0]:
                        other.setdefault("pattern field %s" % pf, it["span"]["line"])
            if other:
                ctx.ob("R-ROLE", "%s is about `%s` only" % (it["name"], own[0]), False,
                       "mentions another member of the family: %s" % ", ".join("%s (line %s)" % kv for kv in sorted(other.items())[:4]), site)
        # expression level
        for n in hir.walk(it["body"]):
            k = n.get("k")
            if k in ("MethodCall", "Call"):
                cn = (n["method"] if k == "MethodCall" else hir.callee_name(n)) or ""
                ct = toks(cn)
                args = hir.call_args(n) if k == "Call" else n["args"]
                for fam in FAMILIES:
                    own = sorted(set(fam_members(ct, fam)))
                    if len(own) != 1 or (cn, fam) in EXCEPTIONS:
                        continue
                    for a in args:
                        fp = field_path(strip(a)) or ()
                        base = strip(a)
                        while base["k"] in ("AddrOf", "Unary"):
                            base = strip(base["e"])
                            fp = field_path(base) or fp
                        if not fp:
                            continue
                        am = sorted(set(fam_members(toks(fp[-1]), fam)))
                        if len(am) == 1 and am[0] != own[0]:
                            ctx.ob("R-ROLE", "%s: %s(.. %s ..)" % (it["name"], cn, ".".join(fp)), False,
                                   "a callee named for `%s` is handed `%s`" % (own[0], am[0]), "%s:%s" % (it["span"]["file"], n.get("line")))
                if k == "MethodCall" and n["method"] == "parse" and n.get("ty") and n["args"]:
                    tyt = toks(re.sub(r".*Result<([^,>]*).*", r"\1", n["ty"]).rsplit("::", 1)[-1])
                    fp = None
                    base = strip(n["args"][0])
                    while base["k"] in ("AddrOf", "Unary"):
                        base = strip(base["e"])
                    fp = field_path(base)
                    if fp:
                        for fam in FAMILIES:
                            a_, b_ = sorted(set(fam_members(tyt, fam))), sorted(set(fam_members(toks(fp[-1]), fam)))
                            if len(a_) == 1 and len(b_) == 1 and a_ != b_:
                                ctx.ob("R-ROLE", "%s: parse::<%s>(%s)" % (it["name"], a_[0], ".".join(fp)), False,
                                       "a `%s` is parsed from the `%s` field" % (a_[0], b_[0]), "%s:%s" % (it["span"]["file"], n.get("line")))
            if k == "Struct":
                for fd in n.get("fields", []):
                    ft = toks(fd["name"])
                    ex = strip(fd["expr"])
                    while ex["k"] in ("AddrOf", "Unary") or (ex["k"] == "MethodCall" and ex["method"] in ("clone", "to_owned", "to_string", "into") and not ex["args"]):
                        ex = strip(ex["e"] if ex["k"] != "MethodCall" else ex["recv"])
                    fp = field_path(ex)
                    if not fp:
                        continue
                    for fam in FAMILIES:
                        a_, b_ = sorted(set(fam_members(ft, fam))), sorted(set(fam_members(toks(fp[-1]), fam)))
                        if len(a_) == 1 and len(b_) == 1 and a_ != b_:
                            ctx.ob("R-ROLE", "%s: field %s initialised from %s" % (it["name"], fd["name"], ".".join(fp)), False,
                                   "`%s` field gets a `%s` value" % (a_[0], b_[0]), "%s:%s" % (it["span"]["file"], n.get("line")))
    ctx.floor("functions scanned by R-ROLE", n_fn, 10)
    if not [o for o in ctx.obligations if o["rule"] == "R-ROLE" and not o["ok"]]:
        ctx.ob("R-ROLE", "no cross-role mention in %d functions" % n_fn, True)


def rule_A_NAMES(ctx, modules=MODULES):
    ctx.rule("A-NAMES", "swapped arguments: an argument that is a plain local whose name equals a parameter name of the callee is passed in that "
             "parameter's position (callees of this crate, parameter names from their definitions)")
    f = ctx.facts
    params = {}
    for p, it in f.hir.items():
        ps = [q.get("name") if q["k"] == "Binding" else None for q in it.get("params", [])]
        params[p] = ps
    n = 0
    for p, it in sorted(f.hir.items()):
        if it.get("body") is None or not any(m in p for m in modules) or "::tests" in p:
            continue
        for c in hir.walk(it["body"]):
            if c.get("k") not in ("Call", "MethodCall"):
                continue
            d = hir.callee(c)
            ps = params.get(d)
            if not ps:
                continue
            args = ([c["recv"]] + c["args"]) if c["k"] == "MethodCall" else c["args"]
            if len(args) != len(ps) or (it["name"], hir.callee_name(c)) in SWAP_EXCEPTIONS:
                continue
            n += 1
            def plain(a):
                a = strip(a)
                while a["k"] == "AddrOf" or (a["k"] == "Unary" and a.get("op") in ("*", "Deref")):
                    a = strip(a["e"])
                fp = field_path(a)
                return fp[0] if fp and len(fp) == 1 else None
            names = [plain(a) for a in args]
            for i, nm in enumerate(names):
                if nm and nm != "self" and nm in ps and ps[i] != nm and ps.index(nm) != i:
                    ctx.ob("A-NAMES", "%s: %s(.. %s ..)" % (it["name"], hir.callee_name(c), nm), False,
                           "local `%s` is passed as parameter `%s` although the callee has a parameter `%s`" % (nm, ps[i], nm),
                           "%s:%s" % (it["span"]["file"], c.get("line")))
    ctx.floor("call sites examined by A-NAMES", n, 5)
    if not [o for o in ctx.obligations if o["rule"] == "A-NAMES" and not o["ok"]]:
        ctx.ob("A-NAMES", "no swapped arguments among %d resolved call sites" % n, True)


ORDERED = {"fc": ["frequency", "confidence"], "pdq": ["priority", "durability", "quality"]}


def rule_K_NAMES(ctx, only=("evidence_value", "narsese_options")):
    ctx.rule("K-NAMES", "functions named after several members of an ordered family touch them in name order, each exactly once "
             "(get_frequency_confidence = (get_frequency(), get_confidence()); set_frequency_confidence sets both, in order); the tuple "
             "impls (V, V) / (V, V, V) of the evidence-value traits read / write the member's ordinal field; zero() = from(0.0), one() = from(1.0); "
             "NarseseOptions::has_sentence <=> {term, punctuation}, has_task <=> {budget, term, punctuation}")
    f = ctx.facts
    n = 0
    for p, it in sorted(f.hir.items()):
        if it.get("body") is None or "api::data_structure" not in p or "::tests" in p or not any(o in p for o in only):
            continue
        nt = toks(it["name"])
        for fam, order in ORDERED.items():
            mem = [t for t in nt if t in order]
            if len(mem) >= 2:
                n += 1
                seq = []
                for kind, name, line in mentions(it["body"]):
                    if kind == "call":
                        for t in toks(name):
                            if t in order:
                                seq.append(t)
                ctx.ob("K-NAMES", "%s touches %s in order, once each" % (it["name"], mem), seq == mem, "touches %s" % seq,
                       "%s:%s" % (it["span"]["file"], it["span"]["line"]))
            st = (it.get("impl") or {}).get("self_ty") or ""
            if len(mem) == 1 and st.startswith("(") and it["name"].startswith(("get_", "set_")):
                n += 1
                want = str(order.index(mem[0]))
                flds = [m_[1] for m_ in mentions(it["body"]) if m_[0] == "field"]
                ctx.ob("K-NAMES", "%s for %s uses field .%s" % (it["name"], st, want), flds == [want], "fields used: %s" % flds,
                       "%s:%s" % (it["span"]["file"], it["span"]["line"]))
        if it["name"] in ("zero", "one") and "evidence_value" in p:
            n += 1
            b = hir.last_expr(it["body"])
            lit = None
            if b["k"] == "Call" and b["args"] and strip(b["args"][0])["k"] == "Lit":
                lit = strip(b["args"][0])["lit"]["v"]
            want = 0.0 if it["name"] == "zero" else 1.0
            ctx.ob("K-NAMES", "EvidentNumber::%s = from(%s)" % (it["name"], want), lit is not None and float(lit) == want, "literal %r" % (lit,))
        if it["name"] in ("has_sentence", "has_task") and "narsese_options" in p:
            n += 1
            def tested(item, depth=0):
                """slots whose PRESENCE the function tests: `Self { x: Some(..), .. }` patterns, `self.x.is_some()` conjuncts, and what a called
                has_* sibling tests; None if anything makes the result depend on more than a conjunction of presence tests"""
                got = set(pattern_fields(item["body"]))
                for n_ in hir.walk(item["body"]):
                    if n_.get("k") == "Binary" and n_.get("op") in ("||", "Or"):
                        return None
                    if n_.get("k") == "Unary" and n_.get("op") in ("!", "Not"):
                        return None
                    if n_.get("k") == "MethodCall":
                        rp_ = field_path(n_["recv"])
                        if n_["method"] == "is_some" and rp_ and len(rp_) == 2 and rp_[0] == "self":
                            got.add(rp_[1])
                        elif n_["method"] == "is_none":
                            return None
                        elif n_["method"] in ("has_sentence", "has_task") and rp_ == ("self",) and depth < 2:
                            sib = [i2 for p2, i2 in f.hir.items() if i2["name"] == n_["method"] and "narsese_options" in p2]
                            sub = tested(sib[0], depth + 1) if len(sib) == 1 else None
                            if sub is None:
                                return None
                            got |= sub
                return got
            pf_ = tested(it)
            pf = sorted(pf_) if pf_ is not None else None
            want = ["punctuation", "term"] if it["name"] == "has_sentence" else ["budget", "punctuation", "term"]
            ctx.ob("K-NAMES", "NarseseOptions::%s <=> %s present" % (it["name"], want), pf == want, "tests %s" % pf)
    ctx.floor("K-NAMES instances", n, 2)
