"""Entry-point sets (roots of the call graph) per totality scope."""


def roots(f, scope):
    out = []
    for p, b in f.mir.items():
        n = b["name"]
        if scope == "enum_parser":
            if "impl_enum::parser" in p and (n in ("from_parse", "parse", "parse_chars", "parse_multi") or (n == "fmt" and "ParseError" in p)):
                out.append(p)
        elif scope == "lexical_parser":
            if "impl_lexical::parser" in p and n in ("parse", "parse_term"):
                out.append(p)
            if "impl_lexical::parser" in p and n == "fmt":
                out.append(p)
        elif scope == "fold":
            if n == "try_fold_into":
                out.append(p)
        elif scope == "enum_formatter":
            if "impl_enum::formatter" in p and (n.startswith("format") or n == "format_to"):
                out.append(p)
        elif scope == "typst":
            if "typst_formatter" in p and (n.startswith("format") or n == "format_to" or n == "post_process_whitespace"):
                out.append(p)
    return out


IMPLICIT_TRAITS = ("std::hash::Hash", "std::cmp::PartialEq", "std::cmp::Eq", "std::cmp::PartialOrd", "std::cmp::Ord", "std::clone::Clone",
                   "std::fmt::Display", "std::fmt::Debug", "std::default::Default", "std::ops::Drop", "std::iter::Iterator", "std::ops::Deref")


def implicit_roots(f):
    """trait impls of the crate's own types that std calls generically (HashSet<Term>::insert -> Term::hash / Term::eq, to_string -> Display::fmt,
    {:?} -> Debug::fmt, clone of a Vec<Term> -> Term::clone ...): the MIR call graph does not show these edges, so they are roots of every scope"""
    out = []
    for p, b in f.mir.items():
        im = b.get("impl") or {}
        tr = im.get("trait") or ""
        if any(tr.startswith(t) for t in IMPLICIT_TRAITS) and "::tests" not in p and "::test" not in p:
            out.append(p)
    return out


SCOPES = ["enum_parser", "lexical_parser", "fold", "enum_formatter", "typst"]
